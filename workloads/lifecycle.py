"""Workload pieces for C04: symbolic stateful actors that log what state they saw, a feed whose rows
carry the *run token*, a capturing sink, a branching operator, and a generator of project packages
from a small pipeline grammar. Everything forml pickles lives here (importable => by reference).

Observation channel: actors append JSON lines to the file named by $LC_LOG (never interpreter
globals: the Dask runner executes by-value copies of the task callables).
"""
import json
import os

import cloudpickle
import pathlib
import textwrap
import typing

from forml import evaluation, flow, io
from forml import project as prjmod
from forml.io import dsl, layout
from forml.io.dsl import parser as parsmod
from forml.pipeline import payload, wrap


def log(record: dict) -> None:
    path = os.environ.get('LC_LOG')
    if path:
        with open(path, 'a', encoding='utf-8') as handle:
            handle.write(json.dumps(record, sort_keys=True) + '\n')


def token() -> int:
    return int(os.environ.get('LC_TOKEN', '0'))


def current_hp(name: str) -> int:
    """Hyper-parameter "of the current code": read when the pipeline module is imported."""
    return int(os.environ.get('LC_HP', '0')) * 100 + ord(name[0])


class Sym(flow.Actor):
    """Symbolic stateful actor: state = who trained it, with what params, on which run tokens."""

    def __init__(self, name: str, hp: int = 0):
        self.name = name
        self.hp = hp
        self.state = None

    def train(self, features, labels) -> None:
        chain = list(self.state['chain']) if self.state else []
        data = rows(features)
        tokens = sorted({int(row[0]) for row in data})
        # 'sig' depends on where in the pipeline the actor sits (every Sym shifts the second column on apply)
        sig = (list(self.state['sig']) if self.state else []) + [sum(int(row[1]) for row in data)]
        self.state = {'name': self.name, 'hp_trained': self.hp, 'chain': chain + tokens, 'sig': sig}
        log({'event': 'train', 'actor': self.name, 'hp': self.hp, 'prev': chain, 'tokens': tokens,
             'labels': len(labels)})

    def apply(self, features):
        log({'event': 'apply', 'actor': self.name, 'hp': self.hp, 'state': self.state})
        return tuple((row[0], int(row[1]) * 3 + 1, *row[2:]) for row in rows(features))

    def get_state(self) -> bytes:
        """Like many user actors: the whole object is the state (hyper-parameters included)."""
        return cloudpickle.dumps(dict(self.__dict__))

    def set_state(self, state: bytes) -> None:
        """...and it is restored as is: keeping the *current* hyper-parameters is the framework's job."""
        if state:
            self.__dict__.update(cloudpickle.loads(state))

    def get_params(self) -> typing.Mapping[str, typing.Any]:
        return {'name': self.name, 'hp': self.hp}

    def set_params(self, name: typing.Optional[str] = None, hp: typing.Optional[int] = None) -> None:
        if name is not None:
            self.name = name
        if hp is not None:
            self.hp = hp


def rows(data) -> tuple:
    if hasattr(data, 'to_rows'):  # layout.Tabular
        data = data.to_rows()
    if hasattr(data, 'itertuples'):
        return tuple(tuple(r) for r in data.itertuples(index=False))
    out = []
    for row in data:
        if hasattr(row, 'tolist'):
            row = row.tolist()
        if isinstance(row, (list, tuple)):
            if len(row) == 1 and hasattr(row[0], 'tolist'):
                row = row[0].tolist()
            out.append(tuple(row))
        else:
            out.append((row,))
    return tuple(out)


@wrap.Actor.apply
def as_tuple(data):
    """Source transform: plain tuples of rows whatever the driver delivered."""
    return rows(data)


@wrap.Actor.apply
def passthru(features):
    """Stateless mapper."""
    return features


@wrap.Actor.apply
def shift(features):
    """Stateless mapper changing the data (so that two expansions of one scope do not see the same rows)."""
    return tuple((row[0], int(row[1]) + 7, *row[2:]) for row in rows(features))


@wrap.Actor.apply
def relabel(labels):
    """Stateless label transformer."""
    return labels


@wrap.Actor.apply
def merge(left, right):
    """Two-input reducer."""
    return left


class Branch(flow.Operator):
    """Two parallel branches over the same scope, merged (the tutorial's fold-like shape: the scope is
    expanded twice and its apply segment copied)."""

    def __init__(self, left: flow.Composable, right: flow.Composable):
        self._left = left
        self._right = right

    def compose(self, scope: flow.Composable) -> flow.Trunk:
        head: flow.Trunk = flow.Trunk()
        merger_apply: flow.Worker = flow.Worker(merge.builder(), 2, 1)
        merger_train: flow.Worker = merger_apply.fork()
        for idx, branch in enumerate((self._left.expand(), self._right.expand())):
            inner: flow.Trunk = scope.expand()
            if idx == 0:
                inner.train.subscribe(head.train)
                inner.apply.subscribe(head.apply)
            else:  # the second expansion of the scope works on shifted data: its actors end up with other states
                shift_apply: flow.Worker = flow.Worker(shift.builder(), 1, 1)
                shift_train: flow.Worker = shift_apply.fork()
                shift_apply[0].subscribe(head.apply.publisher)
                shift_train[0].subscribe(head.train.publisher)
                inner.train.subscribe(shift_train[0])
                inner.apply.subscribe(shift_apply[0])
            inner.label.subscribe(head.label)
            branch.train.subscribe(inner.train)
            branch.label.subscribe(inner.label)
            branch.apply.subscribe(inner.apply)
            merger_apply[idx].subscribe(branch.apply.publisher)
            merger_train[idx].subscribe(branch.train.publisher)
        return head.use(apply=head.apply.extend(tail=merger_apply), train=head.train.extend(tail=merger_train))


_SHARED: dict = {}


def shared(key: str, factory):
    """One operator object per key and pipeline module import (so that 'Q' re-uses the object of 'R')."""
    if key not in _SHARED:
        _SHARED[key] = factory()
    return _SHARED[key]


def metric(true, pred) -> float:
    log({'event': 'metric', 'n_true': len(true), 'n_pred': len(pred)})
    return 0.0


class Req(dsl.Schema):
    """Source table."""

    tok = dsl.Field(dsl.Integer())
    idx = dsl.Field(dsl.Integer())
    label = dsl.Field(dsl.Integer())


class Feed(io.Feed[str, str]):
    """Rows carry the run token of the reading process (3 rows; label = row index)."""

    class Reader(io.Feed.Reader[str, str, layout.RowMajor]):
        """Keyword reader."""

        class Parser(parsmod.Visitor[str, str]):
            """Keyword parser."""

            # pylint: disable=unnecessary-lambda-assignment
            resolve_feature = (
                generate_alias
            ) = generate_expression = generate_join = generate_literal = generate_set = lambda *_: ''
            generate_reference = lambda *_: ('', '')

            def generate_element(self, origin: str, element: str) -> str:
                return f'{origin}-{element}'

            def generate_query(self, source, features, where, groupby, having, orderby, rows) -> str:
                return str(len(features))

        @classmethod
        def parser(cls, sources, features) -> parsmod.Visitor:
            return cls.Parser(sources, features)  # pylint: disable=abstract-class-instantiated

        @classmethod
        def read(cls, statement: str, **kwargs: typing.Any) -> layout.RowMajor:
            width = int(statement)
            return tuple((token(), i, i)[:width] for i in range(3))

    @property
    def sources(self) -> typing.Mapping[dsl.Source, parsmod.Source]:
        return {Req: 'req'}


class Sink(io.Sink):
    """Sink logging what it is given."""

    class Writer(io.Sink.Writer[layout.RowMajor]):
        """Logging writer."""

        @classmethod
        def write(cls, data: layout.RowMajor, **kwargs: typing.Any) -> None:
            log({'event': 'sink', 'rows': len(data) if hasattr(data, '__len__') else 1})


# ------------------------------------------------------------------------------------------------
# pipeline grammar -> project source text
# ------------------------------------------------------------------------------------------------
def gen_spec(rng, depth: int = 0, names: typing.Optional[list] = None) -> list:
    """A pipeline = list of elements: ['S', name] stateful mapper, ['M'] stateless mapper, ['T', name]
    stateful train-only, ['L'] label transformer, ['B', spec, spec] branch, ['R', [names]] map-reduce."""
    names = names if names is not None else []
    out = []
    if depth == 0 and MANY_ACTORS and rng.random() < 0.05:
        # swarm: a long chain - more persistent actors (11-13) than anything a test builds (two-digit state positions)
        for _ in range(rng.randint(11, 13)):
            name = chr(ord('A') + len(names))
            names.append(name)
            out.append(['S', name])
            if rng.random() < 0.2:
                out.append(['M'])
        return out
    if depth == 0 and SOURCE_TRANSFORMS and rng.random() < 0.3:
        # ['X', name]: a stateful mapper in the project's SOURCE transform (rendered into source.py, ahead of the
        # pipeline): persistent like any other, first in the order of states
        out.extend(['X', n] for n in ['X', 'Y'][:rng.choice([1, 1, 2])])
    for _ in range(rng.randint(1, 3 if depth else 4)):
        kind = rng.choices(['S', 'M', 'T', 'L', 'B', 'R'], [6, 2, 1.5, 1, 1.5 if depth < 1 else 0, 1])[0]
        if kind in ('S', 'T') and len(names) < 6:
            name = chr(ord('A') + len(names))
            names.append(name)
            out.append([kind, name])
        elif kind == 'B' and len(names) < 4:
            out.append(['B', gen_spec(rng, depth + 1, names), gen_spec(rng, depth + 1, names)])
        elif kind == 'R' and len(names) < 5:
            group = []
            for _ in range(rng.randint(1, 2)):
                name = chr(ord('A') + len(names))
                names.append(name)
                group.append(name)
            out.append(['R', group])
        elif kind == 'L':
            out.append(['L'])
        else:
            out.append(['M'])
    if depth and not out:
        out.append(['M'])
    return out


SOURCE_TRANSFORMS = True
MANY_ACTORS = True


def spec_names(spec: list, kinds=('S', 'R')) -> list[str]:
    """Names of stateful actors that live in the apply path (need persisting), in spec order."""
    out = []
    for el in spec:
        if el[0] in ('S', 'X') and 'S' in kinds:
            out.append(el[1])
        elif el[0] == 'T' and 'T' in kinds:
            out.append(el[1])
        elif el[0] in ('R', 'Q') and 'R' in kinds:
            out.extend(n for n in el[1] if n not in out)
        elif el[0] == 'B':
            out.extend(spec_names(el[1], kinds))
            out.extend(spec_names(el[2], kinds))
    return out


def unanchored(spec: list, anchored: bool = False) -> list[str]:
    """Persistent actors whose training-side publisher is kept alive by nothing but the pipeline's own train
    segment: every element before them (from the start of the pipeline) is a label transformer or a train-only
    operator, i.e. has no apply-mode node whose worker group would pin the train-mode forks."""
    out = []
    for el in spec:
        if el[0] == 'B':
            out.extend(unanchored(el[1], anchored))
            out.extend(unanchored(el[2], anchored))
            anchored = True  # the merger node
        elif el[0] in ('S', 'R', 'Q'):
            if not anchored:
                out.extend([el[1]] if el[0] == 'S' else el[1])
            anchored = True
        elif el[0] in ('M', 'X'):
            anchored = True
    return out


def mapreduce(names: list) -> str:
    builders = ', '.join(f"lc.Sym.builder(name='{n}', hp=lc.current_hp('{n}'))" for n in names)
    reducer = 'lc.merge.builder()' if len(names) == 2 else 'lc.passthru.builder()'
    return f'payload.MapReduce({builders}, reducer={reducer})'


def render(spec: list) -> str:
    parts = []
    for el in spec:
        if el[0] == 'X':
            continue  # lives in the source transform
        if el[0] == 'S':
            parts.append(f"wrap.Operator.mapper(lc.Sym, name='{el[1]}', hp=lc.current_hp('{el[1]}'))()")
        elif el[0] == 'T':
            parts.append(f"wrap.Operator.train(lc.Sym, name='{el[1]}', hp=lc.current_hp('{el[1]}'))()")
        elif el[0] == 'M':
            parts.append('wrap.Operator.mapper(lc.passthru)()')
        elif el[0] == 'L':
            parts.append('wrap.Operator.label(lc.relabel)()')
        elif el[0] in ('R', 'Q'):
            parts.append(mapreduce(el[1]))  # (an operator object can not be used twice: forml refuses non-linear use)
        else:
            parts.append(f'lc.Branch({render(el[1])}, {render(el[2])})')
    return '(' + ' >> '.join(parts or ['wrap.Operator.mapper(lc.passthru)()']) + ')'


def pkgname(project: str, release: str) -> str:
    return f'lcp_{project}_r{release.replace(".", "_")}'


def write_project(target: pathlib.Path, project: str, release: str, spec: list) -> prjmod.Package:
    name = pkgname(project, release)
    pkg = target / name
    pkg.mkdir(parents=True)
    (pkg / '__init__.py').write_text('')
    transforms = ''.join(f" >> wrap.Operator.mapper(lc.Sym, name='{el[1]}', hp=lc.current_hp('{el[1]}'))()"
                         for el in spec if el[0] == 'X')
    (pkg / 'source.py').write_text(textwrap.dedent(f'''
        from forml import project
        from forml.pipeline import wrap
        from workloads import lifecycle as lc

        project.setup(project.Source.query(lc.Req.select(lc.Req.tok, lc.Req.idx), lc.Req.label)
                      >> wrap.Operator.mapper(lc.as_tuple)(){transforms})
    '''))
    (pkg / 'pipeline.py').write_text(textwrap.dedent(f'''
        from forml import project
        from forml.pipeline import payload, wrap
        from workloads import lifecycle as lc

        project.setup({render(spec)})
    '''))
    (pkg / 'evaluation.py').write_text(textwrap.dedent('''
        from forml import evaluation, project
        from workloads import lifecycle as lc

        project.setup(project.Evaluation(evaluation.Function(lc.metric), evaluation.HoldOut(test_size=0.3, random_state=1)))
    '''))
    prjmod.Manifest(project, release, name).write(target)
    return prjmod.Package(target)


__all__ = ['evaluation', 'payload']
