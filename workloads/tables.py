"""Workload pieces for C02: symbolic multi-port actors, random apply-mode worker DAGs, the reference
interpreter of a compiled symbol table and the simulated Dask pool/queue (Engine A')."""
import concurrent.futures
import os
import random
import typing

from forml import flow


def _log(kind: str, text: str) -> None:
    path = os.environ.get('C02_LOG')
    if path:
        with open(path, 'a', encoding='utf-8') as handle:
            handle.write(f'{kind}\t{text}\n')


def _executions(name: str) -> int:
    path = os.environ.get('C02_LOG')
    if not path or not os.path.exists(path):
        return 0
    with open(path, encoding='utf-8') as handle:
        return sum(1 for line in handle if line.rstrip('\n') == f'exec\t{name}')


def make_fn(k: int):
    """Functions that differ only in a closure value (same __name__/__qualname__ => same repr)."""

    def f(term):
        return ('f', k, term)

    return f


class Op(flow.Actor):
    """Stateless symbolic actor with any number of inputs and `szout` outputs."""

    def __init__(self, name: str, szout: int = 1, function: typing.Optional[typing.Callable] = None,
                 returns_none: bool = False):
        import threading  # pylint: disable=import-outside-toplevel

        self.name = name
        self.szout = szout
        self.function = function
        self.returns_none = returns_none
        # like many real actors (clients, sessions, locks): the INSTANCE does not pickle - its builder (class and
        # hyper-parameters) does, and that is all a runner may ship between processes
        self._guard = threading.Lock()

    def apply(self, *args):
        _log('exec', self.name)
        args = tuple(a for a in args if a is not None)  # the head gets nothing (dask) or None (pyfunc)
        if f"('POISON', '{self.name}')" in repr(args):  # an injected in-pipeline failure aimed at this node
            import forml  # pylint: disable=import-outside-toplevel

            raise forml.InvalidError(f'poisoned input at {self.name}')
        if os.environ.get('C02_FAULT') == self.name and _executions(self.name) == 1:
            # injected transient fault: this instruction fails the first time it is executed (and only then)
            import forml  # pylint: disable=import-outside-toplevel

            raise forml.InvalidError(f'injected transient fault at {self.name}')
        if self.function is not None:
            args = tuple(self.function(a) for a in args)
        if self.returns_none:
            return None  # a legal value like any other ("nothing to report"): consumers see it as an absent argument
        if self.szout == 1:
            return (self.name, *args)
        return tuple((self.name, i, *args) for i in range(self.szout))


class Out(flow.Actor):
    """Sink: writes what it is given (observable through the file, whatever copy of the actor runs)."""

    def __init__(self, name: str = 'sink'):
        self.name = name

    def apply(self, *args):
        _log('exec', self.name)
        _log('sink', repr(args))
        return args


NONE_VALUES = True


def gen_dag(rng: random.Random) -> dict:
    """A random single-head single-tail apply-mode DAG: nodes[i] = {szin, szout, inputs:[(src node, src port)]}."""
    nodes = [{'name': 'n0', 'szin': 1, 'szout': rng.choice([1, 1, 2]), 'inputs': [], 'fn': None}]
    for i in range(1, rng.randint(1, 7) + 1):
        szin = rng.choice([1, 1, 2, 3])
        inputs = []
        for _ in range(szin):
            src = rng.randrange(len(nodes)) if rng.random() < 0.7 else max(0, len(nodes) - 1 - rng.randrange(2))
            inputs.append((src, rng.randrange(nodes[src]['szout'])))
        fn = rng.randrange(3) if rng.random() < 0.25 else None
        nodes.append({'name': f'n{i}' if fn is None else 'lam', 'szin': szin, 'szout': rng.choice([1, 1, 1, 2]),
                      'inputs': inputs, 'fn': fn})
        if NONE_VALUES and nodes[-1]['szout'] == 1 and fn is None and rng.random() < 0.12:
            nodes[-1]['none'] = True
    used = {src for n in nodes for src, _ in n['inputs']}
    dangling = [i for i in range(len(nodes)) if i not in used]
    extra = [rng.randrange(len(nodes)) for _ in range(rng.choice([0, 0, 1]))]
    tail_inputs = [(i, rng.randrange(nodes[i]['szout'])) for i in dangling + extra]
    rng.shuffle(tail_inputs)
    nodes.append({'name': 'sink', 'szin': len(tail_inputs), 'szout': 1, 'inputs': tail_inputs, 'fn': None, 'sink': True})
    return {'nodes': nodes}


def build_segment(dag: dict) -> flow.Segment:
    workers = []
    for node in dag['nodes']:
        if node.get('sink'):
            builder = Out.builder(name='sink')
        else:
            kwargs = {'name': node['name'], 'szout': node['szout']}
            if node['fn'] is not None:
                kwargs['function'] = make_fn(node['fn'])
            if node.get('none'):
                kwargs['returns_none'] = True
            builder = Op.builder(**kwargs)
        workers.append(flow.Worker(builder, node['szin'], node['szout']))
    for idx, node in enumerate(dag['nodes']):
        for port, (src, out) in enumerate(node['inputs']):
            workers[idx][port].subscribe(workers[src][out])
    return flow.Segment(workers[0], workers[-1])


def shape(dag: dict) -> dict:
    nodes = dag['nodes']
    consumers: dict = {}
    for node in nodes:
        for src, out in node['inputs']:
            consumers[(src, out)] = consumers.get((src, out), 0) + 1
    return {'n': len(nodes), 'head_consumers': sum(v for (s, _), v in consumers.items() if s == 0),
            'max_fanout': max(consumers.values(), default=0),
            'multi_output': sum(1 for n in nodes if n['szout'] > 1), 'same_repr_functions': sum(
                1 for n in nodes if n['fn'] is not None)}


def merged_counts(dag: dict) -> dict:
    """Executions per actor name when structurally identical pure tasks are computed once (dask, pure=True)."""
    keys: dict = {}

    def key(i: int):
        if i not in keys:
            node = dag['nodes'][i]
            keys[i] = (node['name'], node['szout'], node['fn'], tuple((key(s), o) for s, o in node['inputs']))
        return keys[i]

    counts: dict = {}
    for k in {key(i) for i in range(len(dag['nodes']))}:
        counts[k[0]] = counts.get(k[0], 0) + 1
    return counts


def interpret(symbols) -> dict:
    """Reference: direct dependency-ordered evaluation of a compiled table, every instruction exactly once."""
    table = dict(symbols)
    cache: dict = {}

    def value(instruction):
        if instruction not in cache:
            cache[instruction] = instruction(*(value(a) for a in table[instruction]))
        return cache[instruction]

    consumed = {a for args in table.values() for a in args}
    for instruction in table:
        if instruction not in consumed:
            value(instruction)
    return cache


# ------------------------------------------------------------------------------------------------
# Engine A': the scheduler of Dask's local schedulers is a PRNG
# ------------------------------------------------------------------------------------------------
class SimFuture(concurrent.futures.Future):
    """Future of a submitted-but-not-yet-executed call."""


class SimPool(concurrent.futures.Executor):
    """Executor handed to dask via ``dask.config.set(pool=...)``: calls are stored, not run."""

    def __init__(self, max_workers: int, rng: random.Random, stats: dict):
        self._max_workers = max_workers
        self.rng = rng
        self.pending: list = []
        self.stats = stats

    def submit(self, fn, /, *args, **kwargs):
        fut = SimFuture()
        self.pending.append((fut, fn, args, kwargs))
        self.stats['max_in_flight'] = max(self.stats.get('max_in_flight', 0), len(self.pending))
        return fut

    def complete_one(self) -> None:
        """The PRNG decides which in-flight task completes next; it runs now, atomically."""
        idx = self.rng.randrange(len(self.pending))
        if len(self.pending) > 1:
            self.stats['choices'] = self.stats.get('choices', 0) + 1
            self.stats['trace'] = self.stats.get('trace', '') + str(idx)
        fut, fn, args, kwargs = self.pending.pop(idx)
        try:
            fut.set_result(fn(*args, **kwargs))
        except BaseException as err:  # pylint: disable=broad-except
            fut.set_exception(err)

    def shutdown(self, wait=True, *, cancel_futures=False):
        pass


class SimQueue:
    """Replacement of ``dask.local.Queue``: a get() on an empty queue lets one in-flight task complete."""

    pool: typing.Optional[SimPool] = None

    def __init__(self):
        self.items: list = []

    def put(self, item) -> None:
        self.items.append(item)

    def get(self, block=True, timeout=None):
        steps = 0
        while not self.items:
            if not self.pool or not self.pool.pending:
                raise RuntimeError('deadlock: scheduler waits for a result but nothing is in flight')
            self.pool.complete_one()
            steps += 1
            if steps > 100000:
                raise RuntimeError('step budget exceeded')
        return self.items.pop(0)
