"""Workload pieces for C06: a small catalog, a statement family and storage builders."""
import csv
import os
import sqlite3
import typing

from forml.io import dsl
from forml.io.dsl import function


class T(dsl.Schema):
    """Main table."""

    a = dsl.Field(dsl.Integer())
    b = dsl.Field(dsl.Integer())
    c = dsl.Field(dsl.String())


class U(dsl.Schema):
    """Side table."""

    a = dsl.Field(dsl.Integer())
    d = dsl.Field(dsl.Integer())


STATEMENTS = ['proj', 'filt:1', 'filt:5', 'ord', 'join', 'agg', 'filt2:1', 'filt2:5', 'ref:1', 'ref:5', 'selfjoin',
              'filt:-1', 'filt:-2',  # hash(-1) == hash(-2) in CPython: literals that differ while their hashes do not
              'union', 'diff', 'setnest',  # set operations; the nested one only on engines that take nested operands
              'refunion']  # one reference NAME used for two different tables in the two operands of a set operation
NESTED_SETS_UNSUPPORTED = ('sql',)  # SQLite refuses parenthesised compound operands (an engine limit, not forml's)
P = T.reference('p')  # an explicitly named reference shared by several statements


def statement(sid: str) -> dsl.Statement:
    """Statements are rebuilt on every call (fresh DSL objects, equal by structure)."""
    if sid == 'proj':
        return T.select(T.a, T.c)
    if sid.startswith('filt:'):
        return T.select(T.a, T.b).where(T.b > int(sid[5:]))
    if sid.startswith('filt2:'):
        return T.select(T.a, T.c).where(T.a == int(sid[6:]))
    if sid == 'ord':
        return T.select(T.a, T.b).orderby(T.b, T.a).limit(3)
    if sid == 'join':
        return T.inner_join(U, T.a == U.a).select(T.a, U.d)
    if sid == 'agg':
        return T.select(T.c, function.Count(T.a).alias('n')).groupby(T.c)
    if sid.startswith('ref:'):
        ref = T.reference('p')
        return ref.select(ref.a, ref.b).where(ref.b > int(sid[4:]))
    if sid == 'selfjoin':
        return T.inner_join(P, T.a == P.a).select(T.a, P.b)
    if sid == 'refunion':
        left, right = T.reference('o'), U.reference('o')  # a reference name is local to its (sub)statement
        return left.select(left.a).where(left.b > 2).union(right.select(right.a))
    if sid in ('union', 'diff', 'setnest'):
        every, some, few = T.select(T.a), T.select(T.a).where(T.b > 2), T.select(T.a).where(T.b > 5)
        if sid == 'union':
            return some.union(few)
        if sid == 'diff':
            return every.difference(some)
        return every.difference(some.difference(few))  # A - (B - C): NOT the same as (A - B) - C
    raise KeyError(sid)


def ordered(sid: str) -> bool:
    return sid == 'ord'


def tables(sid: str) -> tuple:
    return ('T', 'U') if sid in ('join', 'refunion') else ('T',)


def write_sqlite(path: str, content: dict, suffix: str = '', drop_only: bool = False, aside: bool = False) -> None:
    """(Re)write the tables t<suffix>/u<suffix> of the database file (other tables of the file are kept)."""
    target = None
    if aside and os.path.exists(path):
        # the crash-safe way to republish a database file: a copy is changed aside and renamed over the path (new
        # inode - whoever still holds the old file open keeps reading the old content)
        import shutil  # pylint: disable=import-outside-toplevel

        target, path = path, path + '.new'
        shutil.copyfile(target, path)
    con = sqlite3.connect(path)
    con.execute(f'drop table if exists t{suffix}')
    con.execute(f'drop table if exists u{suffix}')
    if drop_only:
        con.commit()
        con.close()
        return
    con.execute(f'create table t{suffix} (a integer, b integer, c text)')
    con.execute(f'create table u{suffix} (a integer, d integer)')
    con.executemany(f'insert into t{suffix} values (?, ?, ?)', content['T'])
    con.executemany(f'insert into u{suffix} values (?, ?)', content['U'])
    con.commit()
    con.close()
    if target:
        os.replace(path, target)


def write_csv(prefix: str, content: dict) -> None:
    for name, header in (('T', ['a', 'b', 'c']), ('U', ['a', 'd'])):
        with open(f'{prefix}_{name}.csv', 'w', newline='', encoding='utf-8') as handle:
            writer = csv.writer(handle)
            writer.writerow(header)
            writer.writerows(content[name])


def make_feed(kind: str, location: str, content: typing.Optional[dict] = None):
    """kind: sql (alchemy over a sqlite file) | csv (monolite over csv files) | inline (monolite inline)."""
    from forml.provider.feed import alchemy, monolite  # pylint: disable=import-outside-toplevel

    if kind.startswith('sql'):
        suffix = kind[3:]  # 'sql' -> tables t/u, 'sql2' -> tables t2/u2 of the same database
        return alchemy.Feed(sources={T: f't{suffix}', U: f'u{suffix}'}, connection=f'sqlite:///{location}')
    if kind == 'csv':
        return monolite.Feed(csv={T: f'{location}_T.csv', U: f'{location}_U.csv'})
    return monolite.Feed(inline={T: [list(r) for r in content['T']], U: [list(r) for r in content['U']]})


def norm(rows, sid: str) -> list:
    out = [[None if v != v else (int(v) if hasattr(v, '__int__') and not isinstance(v, str) and float(v) == int(v)
                                  else v) for v in row] for row in rows]
    out = [[str(v) if not isinstance(v, (int, type(None))) else v for v in row] for row in out]
    return out if ordered(sid) else sorted(out, key=repr)


def evaluate(sid: str, content: dict) -> list:
    """Reference evaluation of the statement family over plain row lists."""
    trows, urows = content['T'], content.get('U', [])
    if sid == 'proj':
        out = [[a, c] for a, b, c in trows]
    elif sid.startswith('filt:'):
        k = int(sid[5:])
        out = [[a, b] for a, b, c in trows if b > k]
    elif sid.startswith('filt2:'):
        k = int(sid[6:])
        out = [[a, c] for a, b, c in trows if a == k]
    elif sid == 'ord':
        return [[a, b] for a, b, c in sorted(trows, key=lambda r: (r[1], r[0]))[:3]]
    elif sid == 'join':
        out = [[a, d] for a, b, c in trows for ua, d in urows if a == ua]
    elif sid.startswith('ref:'):
        k = int(sid[4:])
        out = [[a, b] for a, b, c in trows if b > k]
    elif sid == 'selfjoin':
        out = [[a, b2] for a, b, c in trows for a2, b2, c2 in trows if a == a2]
    elif sid == 'refunion':
        out = [[a] for a in {a for a, b, c in trows if b > 2} | {ua for ua, d in urows}]
    elif sid in ('union', 'diff', 'setnest'):
        every = {a for a, b, c in trows}
        some = {a for a, b, c in trows if b > 2}
        few = {a for a, b, c in trows if b > 5}
        out = [[a] for a in (some | few if sid == 'union' else every - some if sid == 'diff' else every - (some - few))]
    elif sid == 'agg':
        counts: dict = {}
        for a, b, c in trows:
            counts[c] = counts.get(c, 0) + 1
        out = [[c, n] for c, n in counts.items()]
    else:
        raise KeyError(sid)
    return sorted(out, key=repr)
