"""Actors and composables used by the graph-construction workload (C11)."""
import typing

from forml import flow


class Mapper(flow.Actor):
    """Stateless actor."""

    def apply(self, *features):
        return features[0] if len(features) == 1 else features


class Estimator(flow.Actor):
    """Stateful actor."""

    def __init__(self, hyper: int = 0):
        self.hyper = hyper
        self.state = None

    def train(self, features, labels) -> None:
        self.state = (features, labels)

    def apply(self, *features):
        return features[0] if len(features) == 1 else features

    def get_params(self) -> typing.Mapping[str, typing.Any]:
        return {'hyper': self.hyper}

    def set_params(self, hyper: int) -> None:
        self.hyper = hyper


class Const(flow.Composable):
    """Composable returning a prepared trunk (lets the workload hand arbitrary segments to Composition)."""

    def __init__(self, trunk: flow.Trunk):
        self._trunk = trunk

    def expand(self) -> flow.Trunk:
        return self._trunk

    def compose(self, scope: flow.Composable) -> flow.Trunk:
        return scope.expand().extend(*self._trunk)
