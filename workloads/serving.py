"""Workload pieces for the serving simulations (C16, C17): schema, feed, inventory, generated
projects with a stateful model whose state is distinct per generation, and the reference answer.

Everything that forml pickles (feed, descriptors, actors) lives in this importable module so that
pickling is by reference, as in a real deployment.
"""
import json
import os
import pathlib
import textwrap
import typing

from forml import application as appmod
from forml import io
from forml import project as prjmod
from forml.io import asset, dsl, layout
from forml.io.dsl import parser as parsmod


class Req(dsl.Schema):
    """The one table every generated project reads."""

    key = dsl.Field(dsl.Integer())
    val = dsl.Field(dsl.Integer())
    label = dsl.Field(dsl.Integer())


TRAINSET = ((1, 10, 1), (2, 20, 2), (3, 30, 4))  # key, val, label


class Feed(io.Feed[str, str]):
    """Feed returning the fixed trainset (training) - serving entries carry all features themselves."""

    class Reader(io.Feed.Reader[str, str, layout.RowMajor]):
        """Reader with a trivial parser: the statement text is the number of projected columns."""

        class Parser(parsmod.Visitor[str, str]):
            """Keyword parser."""

            # pylint: disable=unnecessary-lambda-assignment
            resolve_feature = (
                generate_alias
            ) = generate_expression = generate_join = generate_literal = generate_set = lambda *_: ''
            generate_reference = lambda *_: ('', '')

            def generate_element(self, origin: str, element: str) -> str:
                return f'{origin}-{element}'

            def generate_query(self, source, features, where, groupby, having, orderby, rows) -> str:
                return str(len(features))

        @classmethod
        def parser(cls, sources, features) -> parsmod.Visitor:
            return cls.Parser(sources, features)  # pylint: disable=abstract-class-instantiated

        @classmethod
        def read(cls, statement: str, **kwargs: typing.Any) -> layout.RowMajor:
            width = int(statement)
            return tuple(r[:width] for r in TRAINSET)

    @property
    def sources(self) -> typing.Mapping[dsl.Source, parsmod.Source]:
        return {Req: 'req'}


class Inventory(asset.Inventory):
    """In-memory inventory (the posix inventory's import machinery is not part of the property)."""

    def __init__(self, descriptors: typing.Iterable[appmod.Descriptor]):
        self._content: dict[str, appmod.Descriptor] = {d.name: d for d in descriptors}
        self.listed = 0

    def list(self) -> typing.Iterable[str]:
        self.listed += 1
        return tuple(self._content.keys())

    def get(self, application: str) -> appmod.Descriptor:
        from detsim import kernel as kmod  # pylint: disable=import-outside-toplevel

        k = kmod.current()
        if k is not None and k.fault('inventory-io-error'):
            raise OSError('injected transient inventory storage error')
        return self._content[application]

    def deploy(self, descriptor: appmod.Descriptor) -> None:
        self._content[descriptor.name] = descriptor

    def put(self, descriptor: appmod.Descriptor.Handle) -> None:
        self._content[descriptor.descriptor.name] = descriptor.descriptor


# ------------------------------------------------------------------------------------------------
# hooks called by the generated model actor (they run inside simulated worker "processes")
# ------------------------------------------------------------------------------------------------
DELAYS: dict[int, float] = {}  # request id -> virtual processing delay (set per run by the check)


def on_apply(rows) -> None:
    """Per-request processing delay: the request id is encoded in the key column."""
    from detsim import kernel as kmod  # pylint: disable=import-outside-toplevel

    if any(row[1] == POISON for row in rows):
        import forml  # pylint: disable=import-outside-toplevel

        raise forml.InvalidError('poisoned feature value')
    k = kmod.current()
    if not k or not rows:
        return
    rid = rows[0][0] // 1000
    delay = DELAYS.get(rid, 0.0)
    k.probe('model-apply')
    if delay > 0:
        k.stats['fault:request-delay'] += 1
        k.sleep(delay, 'model.delay')


POISON = -777  # a feature value the model refuses (an in-pipeline, platform-level failure of that request only)
FANOUT = {'p1', 'p2'}  # projects whose apply graph fans out (shared source value -> two branches -> join)
HEAD_FANOUT = {'p2'}  # ...right at the head of the table: no source transform, the feed output itself is shared


def rows(data) -> tuple:
    """Plain tuples of rows whatever the driver delivered (frame, array of records, ...)."""
    if hasattr(data, 'to_rows'):
        data = data.to_rows()
    if hasattr(data, 'itertuples'):
        return tuple(tuple(r) for r in data.itertuples(index=False))
    out = []
    for row in data:
        if hasattr(row, 'tolist'):
            row = row.tolist()
        out.append(tuple(row) if isinstance(row, (list, tuple)) else (row,))
    return tuple(out)


def answer(state: int, bias: int, row) -> int:
    """The model: what one row of a request maps to under a given state."""
    key, val = row[0], row[1]
    return val * state + bias + key


# ------------------------------------------------------------------------------------------------
# generated projects
# ------------------------------------------------------------------------------------------------
def pkgname(project: str, release: str) -> str:
    return f'simp_{project.replace("-", "_")}_r{release.replace(".", "_")}'


def bias_of(project: str, release: str) -> int:
    return 100000 * (1 + sum(map(ord, project)) % 89) + 1000 * int(release.split('.')[0])


def base_of(project: str, release: str) -> int:
    return 3 + (sum(map(ord, project)) * 7 + int(release.split('.')[0]) * 13) % 50


def write_project(target: pathlib.Path, project: str, release: str) -> prjmod.Package:
    """A directory package holding a complete forml project (source + pipeline)."""
    name = pkgname(project, release)
    pkg = target / name
    pkg.mkdir(parents=True)
    (pkg / '__init__.py').write_text('')
    (pkg / 'source.py').write_text(textwrap.dedent(f'''
        from forml import project
        from forml.io import layout
        from forml.pipeline import wrap
        from workloads import serving

        @wrap.Operator.mapper
        @wrap.Actor.apply
        def as_tuple(data: layout.RowMajor) -> layout.RowMajor:
            return tuple(tuple(r) for r in data)

        SOURCE = project.Source.query(serving.Req.select(serving.Req.key, serving.Req.val), serving.Req.label)
        project.setup(SOURCE{'' if project in HEAD_FANOUT else ' >> as_tuple()'})
    '''))
    (pkg / 'pipeline.py').write_text(textwrap.dedent(f'''
        from forml import project
        from forml.pipeline import payload, wrap
        from workloads import serving

        BIAS = {bias_of(project, release)}
        BASE = {base_of(project, release)}

        @wrap.Actor.train
        def model(state, features, labels):
            if state is None:
                state = BASE
            return state + sum(int(v) for v in labels)

        @{'model.apply' if project in FANOUT else 'wrap.Operator.apply'}
        {'def' if project in FANOUT else '@model.apply\n        def'} model(state, rows):
            rows = serving.rows(rows)
            serving.on_apply(rows)
            return [serving.answer(state, BIAS, r) for r in rows]

        @wrap.Actor.apply
        def keys(rows):
            return [r[0] for r in serving.rows(rows)]

        @wrap.Actor.apply
        def combine(predictions, keys):
            assert len(predictions) == len(keys)
            return predictions

        project.setup({'payload.MapReduce(model.builder(), keys.builder(), reducer=combine.builder())' if project in FANOUT else 'model()'})
    '''))
    prjmod.Manifest(project, release, name).write(target)
    return prjmod.Package(target)


def expected_state(project: str, release: str, generation: int) -> int:
    return base_of(project, release) + generation * sum(r[2] for r in TRAINSET)


def build_template(root: pathlib.Path, projects: typing.Sequence[str], releases: typing.Sequence[str],
                   generations: int) -> dict:
    """Publish and really train (Dask runner, synchronous) every project/release `generations` times.
    Returns {project: {release: [state per generation]}} as read back from the trained actors' logic."""
    from forml.provider.registry.filesystem import posix  # pylint: disable=import-outside-toplevel
    from forml.provider.runner import dask as daskrun  # pylint: disable=import-outside-toplevel

    registry = posix.Registry(root / 'registry', staging=root / 'staging')
    directory = asset.Directory(registry)
    out: dict = {}
    for project in projects:
        for release in releases:
            package = write_project(root / 'src' / f'{project}-{release}', project, release)
            directory.get(project).put(package)
            for _ in range(generations):
                instance = asset.Instance(project, release, None, asset.Directory(registry))
                daskrun.Runner(instance, Feed(), scheduler='synchronous').train()
            out.setdefault(project, {})[release] = [expected_state(project, release, g + 1)
                                                   for g in range(generations)]
    return out


def make_body(rid: int, nrows: int, vals: typing.Sequence[int], drop_column: typing.Optional[str] = None,
              garbage: bool = False, swapped: bool = False) -> bytes:
    rows = [{'key': rid * 1000 + j, 'val': vals[j]} for j in range(nrows)]
    if swapped:  # same fields, other order: the entry must still reach the pipeline in the query's schema
        rows = [{'val': r['val'], 'key': r['key']} for r in rows]
    if drop_column:
        for row in rows:
            row.pop(drop_column)
    return b'\xff\xfe{not json' if garbage else json.dumps(rows).encode()


def make_request(rid: int, nrows: int, vals: typing.Sequence[int], accept: str = 'application/json',
                 content: str = 'application/json', drop_column: typing.Optional[str] = None,
                 garbage: bool = False, swapped: bool = False) -> layout.Request:
    data = make_body(rid, nrows, vals, drop_column, garbage, swapped)
    return layout.Request(data, layout.Encoding.parse(content)[0], accept=layout.Encoding.parse(accept))


# ------------------------------------------------------------------------------------------------
# simulated HTTP client of the REST gateway: speaks ASGI to the Starlette application the real
# forml.provider.gateway.rest.Gateway builds (its `server=` argument is the seam - in production it is uvicorn.run)
# ------------------------------------------------------------------------------------------------
STATUS_EXC = {415: 'Unsupported', 404: 'MissingError', 400: 'InvalidError', 500: 'FailedError'}


async def http_post(app, path: str, body: bytes, headers: typing.Sequence[tuple[str, str]], cuts: typing.Sequence[int] = (),
                    disconnect: bool = False, client: int = 0, pace: typing.Optional[typing.Callable] = None) -> dict:
    """One HTTP exchange. The body arrives in pieces (cut positions); with ``disconnect`` the client goes away
    before the last piece. Returns {'status', 'headers', 'body', 'starts', 'raised'}."""
    import asyncio  # pylint: disable=import-outside-toplevel

    bounds = [0, *sorted(c for c in cuts if 0 < c < len(body)), len(body)]
    parts = [body[a:b] for a, b in zip(bounds, bounds[1:])] or [b'']
    if disconnect:
        parts = parts[:-1] if len(parts) > 1 else [parts[0][:len(parts[0]) // 2]]
    done = asyncio.Event()
    out = {'status': None, 'headers': {}, 'body': b'', 'starts': 0, 'completions': 0, 'raised': None}
    scope = {'type': 'http', 'asgi': {'version': '3.0', 'spec_version': '2.3'}, 'http_version': '1.1', 'method': 'POST',
             'scheme': 'http', 'path': path, 'raw_path': path.encode(), 'root_path': '', 'query_string': b'',
             'headers': [(k.lower().encode('latin-1'), v.encode('latin-1')) for k, v in headers],
             'server': ('sim', 80), 'client': ('client', client)}

    async def receive():
        if parts:
            if pace is not None:
                await pace()
            chunk = parts.pop(0)
            return {'type': 'http.request', 'body': chunk, 'more_body': bool(parts) or disconnect}
        if not disconnect:
            await done.wait()
        return {'type': 'http.disconnect'}

    async def send(message):
        if message['type'] == 'http.response.start':
            out['starts'] += 1
            out['status'] = message['status']
            out['headers'] = {k.decode('latin-1').lower(): v.decode('latin-1') for k, v in message.get('headers', [])}
        elif message['type'] == 'http.response.body':
            out['body'] += message.get('body', b'')
            if not message.get('more_body'):
                out['completions'] += 1
                done.set()

    try:
        await app(scope, receive, send)
    except asyncio.CancelledError:
        raise
    except Exception as err:  # pylint: disable=broad-except
        out['raised'] = err
    return out


def expected_rows(rid: int, nrows: int, vals: typing.Sequence[int], state: int, bias: int) -> list[int]:
    return [answer(state, bias, (rid * 1000 + j, vals[j])) for j in range(nrows)]


def scratch_parent() -> str:
    import tempfile  # pylint: disable=import-outside-toplevel

    return os.environ.get('VERIF_SCRATCH') or tempfile.gettempdir()
