"""C16 - concurrent serving never crosses, loses or duplicates responses (Engine A).

The real ``Engine`` / ``Wrapper`` / ``Dealer`` / ``Executor`` / ``Pool`` / ``Worker`` / ``pyfunc.Runner``
stack serves batches of concurrent requests over 1-3 applications while the kernel decides every
interleaving (threads pre-empted at GIL-faithful points, "processes" at IPC), the clock is virtual
and faults are injected: failing requests at arbitrary positions, per-request model delays, stalls,
spurious queue/event timeouts. Oracle: every caller gets exactly once the answer computed from its
own payload by an instance its application may select; an injected failure fails alone with its own
platform error; everything completes within a virtual-time budget after the last arrival.
"""
from detsim import seams  # isort: skip

seams.install()  # before anything imports forml

# pylint: disable=wrong-import-position
import asyncio
import atexit
import collections
import json
import logging
import os
import pathlib
import random
import shutil
import sys
import tempfile
import time
import typing

import forml
from forml import application, io
from forml.io import layout
from forml.provider.gateway import rest
from forml.provider.inventory import posix as posixinv
from forml.provider.registry.filesystem import posix
from forml.runtime import _service

from detsim import kernel as kmod
from detsim import loop as loopmod
from detsim import runner as runmod
from vlib import base
from workloads import serving

PROP = 'C16'
PROJECTS = ['p0', 'p1', 'p2']
RELEASES = ['1', '2']
GENERATIONS = 3
TEMPLATE: typing.Optional[pathlib.Path] = None
FAIL_KINDS = ['unknown-app', 'bad-content', 'bad-accept', 'missing-column', 'garbage', 'poison', 'poison']
VBUDGET = 120.0  # virtual seconds allowed after the last arrival - on top of the processing time asked for


def vbudget(cfg: dict) -> float:
    """Bounded liveness: everything is answered within VBUDGET virtual seconds after the last arrival plus the sum
    of the (injected) processing delays - a single worker serves them one after the other. A resent payload takes as
    long as the original (the delay belongs to the payload)."""
    delays = {r['rid']: r['delay'] for r in cfg['requests']}
    return VBUDGET + sum(delays.get(r.get('prid', r['rid']), 0.0) for r in cfg['requests'])


def _train_template(root: pathlib.Path) -> list:
    serving.build_template(root, PROJECTS, RELEASES, GENERATIONS)
    return sorted(m for m in sys.modules if not m.startswith('_'))


def build_template() -> pathlib.Path:
    global TEMPLATE  # pylint: disable=global-statement
    if TEMPLATE is None:
        root = pathlib.Path(tempfile.mkdtemp(prefix='c16-template-', dir=serving.scratch_parent()))
        owner = os.getpid()
        atexit.register(lambda: os.getpid() == owner and shutil.rmtree(root, ignore_errors=True))
        # train in a throw-away process: the Dask runner pulls in `distributed`, which installs tblib's pickling support
        # for exceptions process-wide - a serving process does not have that, and it would mask exceptions that do
        # not survive the trip through the response process pool
        loaded = runmod.fork_run(_train_template, root, real_timeout=300)
        # ...but everything else that process imported is imported here as well, so that no run has to import (and take
        # import locks) from inside a simulated thread
        import importlib  # pylint: disable=import-outside-toplevel

        for name in loaded:
            if name.split('.')[0] in ('distributed', 'tblib', 'simp_p0_r1') or name.startswith(('simp_', 'forml.provider.runner.dask')):
                continue
            try:
                importlib.import_module(name)
            except Exception:  # pylint: disable=broad-except
                pass
        assert 'distributed' not in sys.modules, 'the serving image must not carry the Dask runner'
        # load every project's components here, once: forml re-executes its package __init__ (logging set-up included)
        # on each first component load, which must not happen inside a simulated thread
        from forml.io import asset  # pylint: disable=import-outside-toplevel

        registry = posix.Registry(root / 'registry', staging=root / 'staging')
        for project in PROJECTS:
            for release in RELEASES:
                components = asset.Instance(project, release, 1, asset.Directory(registry)).project
                assert components.source and components.pipeline
        TEMPLATE = root
    return TEMPLATE


# ------------------------------------------------------------------------------------------------
# configuration of one run (a pure function of the seed)
# ------------------------------------------------------------------------------------------------
def gen_cfg(seed: int, faulty: typing.Optional[bool] = None) -> dict:
    rng = random.Random(seed)
    faulty = rng.random() < 0.6 if faulty is None else faulty
    napps = rng.choice([1, 1, 2, 2, 3])
    apps = []
    for idx in range(napps):
        kind = rng.choice(['latest', 'explicit', 'explicit', 'abtest'])
        project = rng.choice(PROJECTS)
        app = {'name': f'app{idx}', 'kind': kind, 'project': project}
        if kind == 'latest':
            app['name'] = project if rng.random() < 0.5 and project not in [a['name'] for a in apps] else app['name']
            app['refresh'] = rng.choice([0.5, 5.0, 30.0])
        elif kind == 'explicit':
            app.update(release=rng.choice(RELEASES), generation=rng.randint(1, GENERATIONS))
        else:
            nvar = rng.choice([2, 2, 3])
            variants = rng.sample([(r, g) for r in RELEASES for g in range(1, GENERATIONS + 1)], nvar)
            app['variants'] = [{'release': r, 'generation': g, 'target': rng.choice([None, 0.2, 0.5, 1, 3])}
                               for r, g in variants]
        apps.append(app)
    nreq = rng.choice([1, 2, 3, 4, 6, 8, 8, 12, 16, 24, 32, 64])
    burst = rng.random() < 0.5
    storm = rng.random() < float(os.environ.get('C16_STORM', 0.12))  # swarm: one A/B application hammered by a burst through a wide, busy thread pool
    if storm:
        project = rng.choice(PROJECTS)
        variants = rng.sample([(r, g) for r in RELEASES for g in range(1, GENERATIONS + 1)], rng.choice([2, 2, 3]))
        apps = [{'name': 'app0', 'kind': 'abtest', 'project': project,
                 'variants': [{'release': r, 'generation': g, 'target': rng.choice([None, None, 0.5, 1])} for r, g in variants]}]
        napps, nreq, burst = 1, rng.choice([24, 32, 48, 64]), True
    requests = []
    for rid in range(1, nreq + 1):
        nrows = rng.randint(1, 3)
        req = {'rid': rid, 'app': rng.randrange(napps), 'offset': 0.0 if burst else round(rng.random() * 3, 3),
               'nrows': nrows, 'vals': [rng.randint(1, 10 ** 6) for _ in range(nrows)], 'fail': None, 'delay': 0.0,
               'swapped': rng.random() < 0.3}
        if faulty and rng.random() < 0.2:
            req['fail'] = rng.choice(FAIL_KINDS)
            if req['fail'] == 'poison':  # the model refuses one feature value: fails inside the worker, mid-pipeline
                req['vals'][rng.randrange(nrows)] = serving.POISON
        if faulty and rng.random() < 0.3:
            req['delay'] = rng.choice([0.01, 0.5, 2.5, 11.0])
        if faulty and not req['fail'] and rng.random() < 0.06:
            req['cancel'] = rng.choice([0.0, 0.001, 0.3, 1.5])  # the caller goes away that long after arriving
        requests.append(req)
    # clients resend: some requests carry a payload byte-identical to an earlier one (monitoring probes, retries,
    # pollers) - possibly addressed to another application
    dup = random.Random(seed ^ 0xD0B1E)
    if dup.random() < 0.3:
        for i, req in enumerate(requests):
            sources = [r for r in requests[:i] if not r['fail'] and 'prid' not in r]
            if sources and not req['fail'] and dup.random() < 0.4:
                src = dup.choice(sources)
                req.update(prid=src['rid'], nrows=src['nrows'], vals=list(src['vals']), swapped=src['swapped'])
    # the front end: every other run goes through the real REST gateway (its Starlette application driven over ASGI
    # by simulated HTTP clients: bodies arrive in pieces, clients hang up mid-body) instead of calling Engine.apply
    web = random.Random(seed ^ 0x4E57)
    front = 'rest' if web.random() < float(os.environ.get('C16_REST', 0.5)) else 'engine'
    if front == 'rest':
        for req in requests:
            if web.random() < 0.5:
                req['cuts'] = sorted(web.randrange(1, 60) for _ in range(web.choice([1, 1, 2, 3])))
            if faulty and not req['fail'] and req.get('cancel') is None and web.random() < 0.06:
                req['hangup'] = True  # the client disconnects before the body is complete
            if web.random() < 0.25:
                req['loose'] = web.choice(['no-accept', 'no-accept', 'wildcard', 'quality', 'charset', 'case', 'csv', 'csv'])
    # a value outside the range of its declared kind (JSON 1e999 parses as infinity): a malformed payload like any other
    for req in requests:
        if faulty and not req['fail'] and req.get('cancel') is None and not req.get('hangup') and 'prid' not in req \
                and web.random() < float(os.environ.get('C16_OVERFLOW', 0.03)):
            req['fail'] = 'overflow'
    # the inventory: the in-memory stub or the real posix inventory (descriptor modules loaded by forml's component
    # loader on the wrapper's thread pool)
    # (posix mode is OFF in the registered command - C16_POSIX=<share> switches it on: it no longer loses the baton and
    # it found two genuine loader races, but 5 of 128 of its seeds have more than one (clean) execution: DESIGN.md 8.13)
    inventory = 'posix' if web.random() < float(os.environ.get('C16_POSIX', 0.0)) else 'memory'
    # applications deployed while serving: the inventory grows under the wrapper's descriptor discovery
    if not burst and not storm and web.random() < 0.25:
        for app in apps:
            if web.random() < 0.6:
                app['deploy_at'] = round(web.random() * 2.5, 3)
    commits = []
    for app in apps:
        if app['kind'] == 'latest' and rng.random() < 0.5 and not burst:
            for k in range(rng.randint(1, 2)):
                commits.append({'at': round(rng.random() * 3, 3), 'project': app['project'], 'value': 7000 + 13 * len(commits)})
    commits.sort(key=lambda c: c['at'])
    faults = {}
    if faulty:
        for kind, p in (('spurious-timeout', 0.05), ('stall', 0.002), ('inventory-io-error', 0.15)):
            if rng.random() < 0.5:
                faults[kind] = p
    return {
        'seed': seed, 'faulty': faulty, 'front': front, 'inventory': inventory, 'apps': apps, 'requests': requests, 'commits': commits,
        'processes': rng.randint(3, 4) if storm else rng.randint(1, 4),
        'kernel': {'policy': 'random' if storm else rng.choice(['random', 'random', 'pct']),
                   'preempt_p': rng.choice([0.1, 0.3]) if storm else rng.choice([0.02, 0.1, 0.3, 0.6]),
                   'pct_depth': rng.randint(1, 5), 'pct_horizon': rng.choice([300, 1500, 6000]), 'faults': faults,
                   'max_steps': 400000},
    }


# ------------------------------------------------------------------------------------------------
# the simulated run (executes inside a fresh fork)
# ------------------------------------------------------------------------------------------------
def make_selector(app: dict) -> application.Selector:
    if app['kind'] == 'latest':
        return application.Latest(project=app['project'], refresh=app['refresh'])
    if app['kind'] == 'explicit':
        return application.Explicit(app['project'], app['release'], app['generation'])
    first, *rest = app['variants']
    builder = application.ABTest.compare(app['project'], first['release'], first['generation'], first['target'])
    for var in rest[:-1]:
        builder = builder.over(var['generation'], release=var['release'], target=var['target'])
    last = rest[-1]
    return builder.against(last['generation'], release=last['release'], target=last['target'])


def descriptor_source(app: dict) -> str:
    """The application descriptor as the module file a posix inventory holds."""
    if app['kind'] == 'latest':
        selector = f"application.Latest(project={app['project']!r}, refresh={app['refresh']!r})"
    elif app['kind'] == 'explicit':
        selector = f"application.Explicit({app['project']!r}, {app['release']!r}, {app['generation']!r})"
    else:
        first, *rest = app['variants']
        selector = (f"application.ABTest.compare({app['project']!r}, {first['release']!r}, {first['generation']!r}, "
                    f"{first['target']!r})")
        for var in rest[:-1]:
            selector += f".over({var['generation']!r}, release={var['release']!r}, target={var['target']!r})"
        last = rest[-1]
        selector += f".against({last['generation']!r}, release={last['release']!r}, target={last['target']!r})"
    return f"from forml import application\n\napplication.setup(application.Generic({app['name']!r}, {selector}))\n"


def deploy_file(invdir: pathlib.Path, app: dict) -> None:
    invdir.mkdir(parents=True, exist_ok=True)
    aside = invdir / f'.{app["name"]}.tmp'
    aside.write_text(descriptor_source(app))
    os.replace(aside, invdir / f'{app["name"]}.py')


def make_request(req: dict) -> layout.Request:
    fail = req['fail']
    if fail == 'overflow':
        body, _ = make_http(req)
        return layout.Request(body, layout.Encoding.parse('application/json')[0], accept=layout.Encoding.parse('application/json'))
    return serving.make_request(
        req.get('prid', req['rid']), req['nrows'], req['vals'],
        accept='application/x-nonexistent' if fail == 'bad-accept' else 'application/json',
        content='application/x-nonexistent' if fail == 'bad-content' else 'application/json',
        drop_column='val' if fail == 'missing-column' else None, garbage=fail == 'garbage',
        swapped=req.get('swapped', False))


def make_http(req: dict) -> tuple[bytes, list]:
    """The same request as an HTTP body plus headers. Header variations a real client may send and that must not
    change the outcome: no Accept at all (the response then uses the request's encoding), a wildcard, quality values
    with the supported encoding not in first position, an extra option on the content type, other letter case of
    the header names."""
    fail = req['fail']
    body = serving.make_body(req.get('prid', req['rid']), req['nrows'], req['vals'],
                             drop_column='val' if fail == 'missing-column' else None, garbage=fail == 'garbage',
                             swapped=req.get('swapped', False))
    if fail == 'overflow':
        body = body.replace(f'"val": {req["vals"][0]}'.encode(), b'"val": 1e999', 1)
    content = 'application/x-nonexistent' if fail == 'bad-content' else 'application/json'
    accept = 'application/x-nonexistent' if fail == 'bad-accept' else 'application/json'
    loose = req.get('loose')
    names = ('CONTENT-TYPE', 'ACCEPT') if loose == 'case' else ('Content-Type', 'Accept')
    if loose == 'charset' and not fail:
        content = 'application/json; charset=utf-8'
    if not fail:
        if loose == 'wildcard':
            accept = 'application/x-nonexistent, application/*; q=0.5'
        elif loose == 'quality':
            accept = 'application/x-nonexistent; q=0.9, application/json; q=0.8, text/x-unknown; q=0.95'
        elif loose == 'csv':
            accept = 'text/csv'
    headers = [(names[0], content)]
    if not (loose == 'no-accept' and not fail):
        headers.append((names[1], accept))
    return body, headers


def parse_instance(header: str) -> list:
    _, project, release, generation = header.rsplit('-', 3)
    return [project, release, int(generation)]


def simulate(cfg: dict, schedule: typing.Optional[list] = None) -> dict:
    logging.disable(logging.CRITICAL)
    template = TEMPLATE
    rundir = None
    if cfg.get('commits'):
        # new generations will appear while serving: work on a private copy of the trained template
        rundir = pathlib.Path(tempfile.mkdtemp(prefix='c16-run-', dir=serving.scratch_parent()))
        shutil.copytree(template / 'registry', rundir / 'registry')
        registry = posix.Registry(rundir / 'registry', staging=template / 'staging')
    else:
        registry = posix.Registry(template / 'registry', staging=template / 'staging')
    committed: list = []  # (virtual time, project, generation, state value)
    invdir = None
    if cfg.get('inventory') == 'posix':
        invdir = pathlib.Path(tempfile.mkdtemp(prefix='c16-inv-', dir=serving.scratch_parent()))
        for app in cfg['apps']:
            if app.get('deploy_at') is None:
                deploy_file(invdir / 'inventory', app)
        inventory = posixinv.Inventory(invdir / 'inventory')
    else:
        inventory = serving.Inventory([application.Generic(a['name'], make_selector(a)) for a in cfg['apps']
                                       if a.get('deploy_at') is None])
    deployed: dict = {}  # application name -> virtual time at which its descriptor was in the inventory
    serving.DELAYS.clear()
    serving.DELAYS.update({r['rid']: r['delay'] for r in cfg['requests'] if r['delay']})
    kcfg = dict(cfg['kernel'])
    # the component loader is pre-emptible only where it is what is being looked at (descriptors of the posix inventory
    # loaded on the wrapper's thread pool)
    kcfg['trace_files'] = tuple(f for f in seams.TRACE_FILES
                                if cfg.get('inventory') == 'posix' or not f.endswith(('setup/_importer.py', 'inventory/posix.py')))
    kcfg['trace_entry_files'] = seams.TRACE_ENTRY_FILES
    kcfg['keep_log'] = False
    if schedule is not None:
        kcfg['schedule'] = list(schedule)
    kernel = kmod.Kernel(cfg['seed'], kcfg)
    records: dict[int, dict] = {}
    state = {'pending': None, 'engine_alive': None}

    def main():
        loop = loopmod.SimEventLoop()
        webapp = []
        if cfg.get('front') == 'rest':
            # the real gateway provider; `server` is its own seam (uvicorn.run in production): here it just hands the
            # Starlette application over to the simulated HTTP clients
            gateway = rest.Gateway(inventory, registry, io.Importer(serving.Feed()), processes=cfg['processes'],
                                   loop=loop, server=lambda app, **_: webapp.append(app))
            gateway.run(gateway._engine.apply, gateway._engine.stats, **gateway._kwargs)  # pylint: disable=protected-access
            engine = gateway._engine  # pylint: disable=protected-access
        else:
            engine = _service.Engine(inventory, registry, io.Importer(serving.Feed()), processes=cfg['processes'],
                                     loop=loop)

        async def over_http(name: str, req: dict, rec: dict) -> None:
            body, headers = make_http(req)

            async def pace():
                await asyncio.sleep(0)

            got = await serving.http_post(webapp[0], f'/{name}', body, headers, req.get('cuts', ()),
                                          bool(req.get('hangup')), client=req['rid'], pace=pace)
            rec['http'] = got['status']
            kernel.stats[f'http:{got["status"]}'] += 1
            kernel.probe('rest-exchange')
            if len(req.get('cuts', ())) and len(body) > min(req['cuts']):
                kernel.probe('rest-body-in-pieces')
            if got['starts'] > 1 or got['completions'] > 1:
                rec['n'] += max(got['starts'], got['completions']) - 1  # a second response on one exchange
            if req.get('hangup'):
                kernel.stats['fault:client-hung-up-mid-body'] += 1
                rec.update(status='hungup', answered=got['status'] == 200)
            elif got['raised'] is not None:
                err = got['raised']
                rec.update(status='exc', exc=type(err).__name__, platform=isinstance(err, forml.AnyError), msg=str(err)[:160])
            elif got['status'] == 200:
                rec.update(status='ok', payload=got['body'].decode('utf-8', 'replace'),
                           encoding=got['headers'].get('content-type', '').split(';')[0].strip(),
                           instance=parse_instance(got['headers'].get('x-forml-instance', '---')))
            else:
                rec.update(status='exc', exc=serving.STATUS_EXC.get(got['status'], f'HTTP{got["status"]}'),
                           platform=got['status'] in serving.STATUS_EXC, msg=got['body'].decode('utf-8', 'replace')[:160])

        async def client(req: dict):
            if req['offset']:
                await asyncio.sleep(req['offset'])
            name = 'no-such-app' if req['fail'] == 'unknown-app' else cfg['apps'][req['app']]['name']
            rec = records[req['rid']] = {'invoke': kernel.step, 't0': kernel.now, 'n': 0}
            response = None
            try:
                if webapp:
                    await over_http(name, req, rec)
                else:
                    response = await engine.apply(name, make_request(req))
            except BaseException as err:  # pylint: disable=broad-except
                if isinstance(err, (asyncio.CancelledError, kmod.Deadlock, kmod.StepBudget)):
                    raise
                rec.update(status='exc', exc=type(err).__name__, platform=isinstance(err, forml.AnyError),
                           msg=str(err)[:160])
            if response is not None:
                gen = response.instance._generation  # pylint: disable=protected-access
                rec.update(status='ok', payload=response.payload.data.decode('utf-8', 'replace'),
                           encoding=response.payload.encoding.kind,
                           instance=[str(gen.project.key), str(gen.release.key), int(gen.key)])
            rec['n'] += 1
            rec['return'] = kernel.step
            rec['t1'] = kernel.now
            kernel.note('response', f'{req["rid"]}:{rec["status"]}')

        def trainer():
            import cloudpickle  # pylint: disable=import-outside-toplevel
            from forml.io import asset  # pylint: disable=import-outside-toplevel

            writer = posix.Registry(rundir / 'registry', staging=template / 'staging')
            for commit in cfg['commits']:
                if commit['at'] > kernel.now:
                    kernel.sleep(commit['at'] - kernel.now, 'trainer.wait')
                instance = asset.Instance(commit['project'], max(RELEASES, key=int), None, asset.Directory(writer))
                accessor = instance.state([0], instance.tag.training.trigger())
                accessor.commit([accessor.dump(cloudpickle.dumps(commit['value']))])
                committed.append((kernel.now, commit['project'], int(accessor._generation.key), commit['value']))  # pylint: disable=protected-access
                kernel.note('committed', f'{commit["project"]}:{committed[-1][2]}')
                kernel.probe('generation-committed-while-serving')

        if cfg.get('commits'):
            kernel.spawn(trainer, 'trainer', 'process')

        def deployer():
            for app in sorted((a for a in cfg['apps'] if a.get('deploy_at') is not None), key=lambda a: a['deploy_at']):
                if app['deploy_at'] > kernel.now:
                    kernel.sleep(app['deploy_at'] - kernel.now, 'deployer.wait')
                if invdir is not None:
                    deploy_file(invdir / 'inventory', app)
                else:
                    inventory.deploy(application.Generic(app['name'], make_selector(app)))
                deployed[app['name']] = kernel.now
                kernel.note('deployed', app['name'])
                kernel.stats['fault:application-deployed-while-serving'] += 1

        if any(a.get('deploy_at') is not None for a in cfg['apps']):
            kernel.spawn(deployer, 'deployer', 'process')

        async def canceller(task, req):
            await asyncio.sleep(req['offset'] + req['cancel'])
            if not task.done():
                records.setdefault(req['rid'], {}).update(cancelled=True)
                kernel.stats['fault:caller-cancelled'] += 1
                task.cancel()

        async def amain():
            tasks = [asyncio.ensure_future(client(r)) for r in cfg['requests']]
            for task, req in zip(tasks, cfg['requests']):
                if req.get('cancel') is not None:
                    asyncio.ensure_future(canceller(task, req))
            last = max((r['offset'] for r in cfg['requests']), default=0.0)
            _, pending = await asyncio.wait(tasks, timeout=last + vbudget(cfg))
            state['pending'] = len(pending)
            for task in pending:
                task.cancel()

        loop.run_until_complete(amain())

    outcome = 'completed'
    try:
        kernel.run(main)
    except kmod.Deadlock as err:
        outcome = f'deadlock: {err}'
    except kmod.StepBudget as err:
        outcome = f'step-budget: {err}'
    finally:
        if rundir:
            shutil.rmtree(rundir, ignore_errors=True)
        if invdir:
            shutil.rmtree(invdir, ignore_errors=True)
    return {'deployed': deployed, 'committed': committed, 'stalled': sum(kernel.stalled.values()), 'records': records, 'outcome': outcome, 'pending': state['pending'], 'steps': kernel.step,
            'vtime': kernel.now, 'switches': kernel.switches, 'stats': dict(kernel.stats),
            'probes': dict(kernel.probes), 'digest': kernel.digest(), 'decisions': kernel.decisions,
            'ntasks': len(kernel.tasks)}


# ------------------------------------------------------------------------------------------------
# oracle
# ------------------------------------------------------------------------------------------------
EXPECTED_EXC = {  # failing request kind -> acceptable platform error classes
    'unknown-app': {'MissingError'},
    'bad-content': {'Unsupported'},
    'bad-accept': {'Unsupported'},
    'missing-column': {'MissingError', 'InvalidError', 'FailedError'},
    'garbage': {'FailedError'},
    'poison': {'InvalidError'},
    'overflow': {'InvalidError', 'FailedError', 'CastError'},
}


def allowed_instances(app: dict, rec: typing.Optional[dict] = None, result: typing.Optional[dict] = None) -> list[list]:
    if app['kind'] == 'latest':
        top = max(RELEASES, key=int)
        out = [[app['project'], top, GENERATIONS]]
        if rec and result:
            # every generation that was the latest at some instant of [invoke - refresh - stalls, return]
            lo = rec['t0'] - app['refresh'] - result.get('stalled', 0.0) - 1e-9
            mine = [c for c in result.get('committed', []) if c[1] == app['project']]
            before = [c for c in mine if c[0] < lo]
            inside = [c for c in mine if lo <= c[0] <= rec.get('t1', rec['t0']) + 1e-9]
            out = ([[app['project'], top, before[-1][2]]] if before else out) + [[app['project'], top, c[2]] for c in inside]
        return out
    if app['kind'] == 'explicit':
        return [[app['project'], app['release'], app['generation']]]
    return [[app['project'], v['release'], v['generation']] for v in app['variants']]


def judge(cfg: dict, result: dict) -> list[dict]:
    """All violations of the property visible in the recorded history."""
    out = []
    records = result['records']
    if not result['outcome'].startswith('completed'):
        out.append({'class': 'lost-response', 'detail': f'run did not complete: {result["outcome"][:300]}'})
    expect_by_rid = {}
    for req in cfg['requests']:
        rec = records.get(req['rid'])
        app = cfg['apps'][req['app']]
        if rec is not None and rec.get('cancelled') and 'status' not in rec:
            continue  # the caller went away: nothing to deliver (everybody else must still be served)
        if rec is None or 'status' not in rec:
            if result['outcome'].startswith('completed'):
                out.append({'class': 'lost-response', 'rid': req['rid'],
                            'detail': f'request {req["rid"]} ({req["fail"] or "valid"}) to {app["name"]} got no outcome '
                                      f'within {vbudget(cfg)} virtual seconds after the last arrival'})
            continue
        if rec['status'] == 'hungup':
            # the client went away before its body was complete: there is nothing to answer, and nothing may be
            # answered from half a body (everybody else must still be served)
            if rec.get('answered'):
                out.append({'class': 'missing-failure', 'rid': req['rid'],
                            'detail': f'request {req["rid"]} was answered 200 although its body never arrived completely'})
            continue
        if rec['n'] != 1:
            out.append({'class': 'duplicate-response', 'rid': req['rid'], 'detail': f'{rec["n"]} outcomes'})
        if (rec['status'] == 'exc' and rec['exc'] == 'MissingError' and app.get('deploy_at') is not None
                and rec['t0'] <= result.get('deployed', {}).get(app['name'], float('inf')) + 1e-9):
            result.setdefault('early', 0)
            result['early'] += 1
            continue  # asked for before the application was deployed: "not found" is the right answer then
        if req['fail'] == 'overflow' and rec['status'] == 'ok':
            continue  # whether a value out of range is refused or answered somehow is C15's business - here: it is alone
        if req['fail']:
            if rec['status'] != 'exc':
                out.append({'class': 'missing-failure', 'rid': req['rid'],
                            'detail': f'request {req["rid"]} ({req["fail"]}) was answered: {rec.get("payload")}'})
            elif 'injected transient inventory storage error' in rec.get('msg', ''):
                pass  # it met the injected inventory fault before its own defect could show
            elif not rec['platform'] or rec['exc'] not in EXPECTED_EXC[req['fail']]:
                out.append({'class': 'wrong-failure', 'rid': req['rid'],
                            'detail': f'request {req["rid"]} ({req["fail"]}) failed with {rec["exc"]}: {rec["msg"]}'})
            continue
        if rec['status'] != 'ok' and 'injected transient inventory storage error' in rec.get('msg', ''):
            continue  # this request met the injected inventory fault itself: it may fail (alone)
        asked = 'text/csv' if req.get('loose') == 'csv' else 'application/json'
        if rec['status'] == 'ok' and rec.get('encoding') != asked:
            out.append({'class': 'wrong-answer', 'rid': req['rid'],
                        'detail': f'request {req["rid"]} asked for {asked} and was answered in {rec.get("encoding")!r}'})
            continue
        if rec['status'] != 'ok':
            out.append({'class': 'spurious-failure', 'rid': req['rid'], 'exc': rec['exc'],
                        'detail': f'valid request {req["rid"]} to {app["name"]} failed with {rec["exc"]}: {rec["msg"]}'})
            continue
        if rec['instance'] not in allowed_instances(app, rec, result):
            out.append({'class': 'wrong-instance', 'rid': req['rid'],
                        'detail': f'request {req["rid"]} to {app["name"]} ({app["kind"]}) at t=[{rec["t0"]}, {rec.get("t1")}] '
                                  f'served by {rec["instance"]}, allowed {allowed_instances(app, rec, result)}'})
            continue
        project, release, generation = rec['instance']
        state = next((c[3] for c in result.get('committed', []) if c[1] == project and c[2] == generation
                      and release == max(RELEASES, key=int)), None)
        if state is None:
            state = serving.expected_state(project, release, generation)
        else:
            result.setdefault('served_by_new_generation', 0)
            result['served_by_new_generation'] += 1
        want = serving.expected_rows(req.get('prid', req['rid']), req['nrows'], req['vals'], state,
                                     serving.bias_of(project, release))
        expect_by_rid[req['rid']] = want
        try:
            if asked == 'text/csv':
                got = [int(line) for line in rec['payload'].strip().splitlines()[1:]]
            else:
                got = [list(r.values())[0] for r in json.loads(rec['payload'])]
        except Exception:  # pylint: disable=broad-except
            got = rec['payload']
        if got != want:
            out.append({'class': 'wrong-answer', 'rid': req['rid'],
                        'detail': f'request {req["rid"]} to {app["name"]} via {rec["instance"]}: got {str(got)[:80]} '
                                  f'expected {want}'})
    return out


# ------------------------------------------------------------------------------------------------
# seed-level entry points
# ------------------------------------------------------------------------------------------------
def execute(cfg: dict, schedule: typing.Optional[list] = None) -> tuple[dict, list[dict]]:
    result = runmod.fork_run(simulate, cfg, schedule, real_timeout=240, seed=cfg['seed'])
    return result, judge(cfg, result)


def run_seed(job) -> dict:
    seed, faulty = job
    cfg = gen_cfg(seed, faulty)
    out = {'seed': seed, 'violations': [], 'harness': None}
    try:
        result, violations = execute(cfg)
    except runmod.RunFailed as err:
        out['harness'] = str(err)[:1500]
        return out
    result['probes']['answered-by-a-generation-committed-while-serving'] = result.get('served_by_new_generation', 0)
    result['probes']['refused-before-its-application-was-deployed'] = result.get('early', 0)
    late = {a['name'] for a in cfg['apps'] if a.get('deploy_at') is not None}
    result['probes']['answered-by-an-application-deployed-while-serving'] = sum(
        1 for r in cfg['requests'] if cfg['apps'][r['app']]['name'] in late and not r['fail']
        and result['records'].get(r['rid'], {}).get('status') == 'ok')
    out.update(digest=result['digest'], steps=result['steps'], vtime=result['vtime'], switches=result['switches'],
               stats=result['stats'], probes=result['probes'], nreq=len(cfg['requests']), ntasks=result['ntasks'],
               faulty=cfg['faulty'], ndecisions=len(result['decisions']))
    for req in cfg['requests']:
        if req['fail']:
            out['stats'][f'fault:failing-request:{req["fail"]}'] = out['stats'].get(f'fault:failing-request:{req["fail"]}', 0) + 1
        if req.get('swapped'):
            out['stats']['fault:columns-swapped'] = out['stats'].get('fault:columns-swapped', 0) + 1
    out['shape'] = base.digest([len(cfg['apps']), [a['kind'] for a in cfg['apps']], cfg['processes'],
                                len(cfg['requests']), sorted(r['fail'] or '' for r in cfg['requests'])])
    for vio in violations:
        out['violations'].append({**vio, 'cfg': cfg, 'decisions': result['decisions']})
    if not violations and seed % 97 == 0:
        out['sample'] = {'seed': seed, 'apps': cfg['apps'], 'processes': cfg['processes'],
                         'kernel': {k: v for k, v in cfg['kernel'].items() if k != 'max_steps'},
                         'requests': cfg['requests'][:4], 'n_requests': len(cfg['requests']),
                         'steps': result['steps'], 'virtual_seconds': result['vtime']}
    return out


def reproduces(cfg: dict, schedule: typing.Optional[list], klass: str) -> typing.Optional[dict]:
    try:
        _, violations = execute(cfg, schedule)
    except runmod.RunFailed:
        return None
    for vio in violations:
        if vio['class'] == klass:
            return vio
    return None


def minimise(cfg: dict, decisions: list, klass: str, budget: int = 60) -> tuple[dict, list, dict]:
    """Shrink (i) the request list, (ii) the fault knobs, (iii) the schedule (decisions -> 0 = "keep running
    the current task / no pre-emption / no fault") while the same violation class reproduces."""
    tests = [0]

    def attempt(candidate_cfg, candidate_sched):
        if tests[0] >= budget:
            return None
        tests[0] += 1
        return reproduces(candidate_cfg, candidate_sched, klass)

    # (i) requests - re-run from the seed (the schedule belongs to the full workload)
    best_cfg, best_sched = cfg, None
    witness = attempt(cfg, None)
    if witness is None:
        return cfg, decisions, {'class': klass, 'detail': 'not reproduced on re-execution'}

    def fails(reqs):
        cand = {**best_cfg, 'requests': reqs}
        return attempt(cand, None) is not None

    if len(cfg['requests']) > 1:
        reqs = base.ddmin(cfg['requests'], fails, max_tests=max(4, budget // 2))
        cand = {**cfg, 'requests': reqs}
        got = attempt(cand, None)
        if got is not None:
            best_cfg, witness = cand, got
    # (ii) drop fault knobs
    if best_cfg['kernel']['faults']:
        cand = {**best_cfg, 'kernel': {**best_cfg['kernel'], 'faults': {}}}
        got = attempt(cand, None)
        if got is not None:
            best_cfg, witness = cand, got
    # (iii) schedule: record the decisions of the reduced run, then zero them out chunk-wise
    try:
        result, _ = execute(best_cfg)
        sched = list(result['decisions'])
    except runmod.RunFailed:
        return best_cfg, decisions, witness
    if attempt(best_cfg, sched) is None:
        return best_cfg, None, witness  # forced replay does not reproduce: keep the seed-driven replay
    best_sched = sched
    chunk = max(1, len(sched) // 4)
    while chunk >= 1 and tests[0] < budget:
        i = 0
        while i < len(best_sched) and tests[0] < budget:
            if any(best_sched[i:i + chunk]):
                cand = best_sched[:i] + [0] * len(best_sched[i:i + chunk]) + best_sched[i + chunk:]
                got = attempt(best_cfg, cand)
                if got is not None:
                    best_sched, witness = cand, got
            i += chunk
        if chunk == 1:
            break
        chunk //= 4 if chunk >= 8 else 2
        chunk = max(1, chunk)
    while best_sched and best_sched[-1] == 0:
        best_sched.pop()
    return best_cfg, best_sched, witness


def match_finding(vio: dict, findings: list[dict]) -> typing.Optional[dict]:
    for finding in findings:
        sig = finding.get('signature', {})
        if sig.get('class') == vio['class'] and all(s in vio['detail'] for s in sig.get('detail_contains', [])):
            return finding
    return None


def main(argv: list[str]) -> int:
    import argparse  # pylint: disable=import-outside-toplevel

    parser = argparse.ArgumentParser(prog='check.py C16')
    parser.add_argument('--tier', default=None)
    parser.add_argument('--replay', default=None)
    parser.add_argument('--seeds', type=int, default=None)
    parser.add_argument('--budget', type=float, default=None)
    args = parser.parse_args(argv)
    logging.disable(logging.CRITICAL)
    build_template()

    if args.replay:
        doc = json.loads(pathlib.Path(args.replay).read_text())
        result, violations = execute(doc['config'], doc.get('schedule'))
        got = [v for v in violations if v['class'] == doc['violation']['class']]
        print(f'replay seed={doc["seed"]} expected={doc["violation"]["class"]} got={[v["class"] for v in violations]} '
              f'digest={result["digest"]} recorded_digest={doc.get("digest")}')
        if got:
            print(f'VIOLATION property={PROP} replay={args.replay}')
            print(f'  {got[0]["detail"]}')
            return base.EXIT_VIOLATION
        return base.EXIT_OK

    tier = base.tier(args.tier)
    seed0 = base.base_seed()
    nseeds = args.seeds or (600 if tier == 'quick' else 40000)
    budget = args.budget or (40 if tier == 'quick' else 1500)
    print(f'{PROP} seed={seed0} tier={tier} seeds<={nseeds} budget={budget}s')
    base.clean_replays(PROP)
    start = time.monotonic()
    # fault-free and fault-injecting runs are separate classes: every third seed is forced fault-free
    jobs = [(seed0 * 100000 + i, False if i % 3 == 0 else None) for i in range(nseeds)]
    results, errors, exhausted = base.sweep(run_seed, jobs, budget, per_item_limit_s=600)
    base.emit_digests(results)
    findings = base.open_findings(PROP)
    stats: collections.Counter = collections.Counter()
    probes: collections.Counter = collections.Counter()
    digests, shapes, samples, violations = set(), set(), [], []
    steps = vtime = nreq = 0
    nfaulty = 0
    for res in results:
        if res.get('harness'):
            errors.append(f'seed {res["seed"]}: {res["harness"]}')
            continue
        stats.update(res['stats'])
        probes.update(res['probes'])
        digests.add(res['digest'])
        shapes.add(res['shape'])
        steps += res['steps']
        vtime += res['vtime']
        nreq += res['nreq']
        nfaulty += bool(res['faulty'])
        if res.get('sample') and len(samples) < 3:
            samples.append(res['sample'])
        for vio in res['violations']:
            violations.append((res['seed'], vio))
    known, reported = {}, {}
    for seed, vio in violations:
        finding = match_finding(vio, findings)
        if finding:
            known.setdefault(finding['id'], (seed, vio))
        else:
            reported.setdefault(vio['class'], (seed, vio))
    for fid, (seed, vio) in sorted(known.items()):
        print(f'KNOWN-FINDING: property={PROP} {fid}: seed {seed}: {vio["detail"][:200]}')
    nviol = 0
    for klass, (seed, vio) in sorted(reported.items()):
        cfg, sched, witness = minimise(vio['cfg'], vio['decisions'], klass)
        try:
            result, _ = execute(cfg, sched)
            dig = result['digest']
        except runmod.RunFailed:
            dig = None
        path = base.write_replay(PROP, f'{seed}-{nviol}', {
            'property': PROP, 'seed': seed, 'tier': tier, 'engine': 'A', 'config': cfg, 'schedule': sched,
            'ops': cfg['requests'], 'violation': {'class': klass, 'detail': witness['detail']}, 'digest': dig,
            'schedule_note': 'list of kernel decisions; 0 = stay on the current task / no pre-emption / no fault; '
                             'null = re-derive every decision from the seed'})
        print(f'VIOLATION property={PROP} replay={path}')
        print(f'  class={klass}: {witness["detail"][:300]} (requests: {len(cfg["requests"])}, '
              f'non-default decisions: {sum(1 for d in sched or [] if d)})')
        nviol += 1
    wall = time.monotonic() - start
    nruns = len([r for r in results if not r.get('harness')])
    if not samples and results:
        res = next((r for r in results if not r.get('harness')), None)
        if res:
            cfg = gen_cfg(res['seed'])
            samples.append({'seed': res['seed'], 'apps': cfg['apps'], 'processes': cfg['processes'],
                            'n_requests': len(cfg['requests']), 'requests': cfg['requests'][:3],
                            'steps': res['steps'], 'virtual_seconds': res['vtime']})
    coverage = {
        'evaluations': nruns,
        'distinct_nontrivial': len(digests),
        'rule': 'one evaluation = one simulated run of the real serving engine (1-64 concurrent requests, 1-3 '
                'applications, pool size 1-4) under one seeded schedule and fault sequence; distinct = distinct '
                'schedule-trace digests (sha256 over every kernel decision point and response event); non-trivial '
                '= every run has at least one request in flight through the thread pool, executor thread, spawned '
                'pool and forked workers',
        'samples': samples,
        'seeds': [jobs[0][0], jobs[len(results) - 1][0]] if results else [],
        'runs_per_hour': round(nruns / wall * 3600) if wall else 0,
        'requests_served': nreq, 'kernel_steps': steps, 'simulated_seconds': round(vtime, 1),
        'fault_injecting_runs': nfaulty, 'fault_free_runs': nruns - nfaulty,
        'distinct_workload_shapes': len(shapes),
        'fault_kinds_fired': {k[6:]: v for k, v in stats.items() if k.startswith('fault:')},
        'http_statuses_seen': {k[5:]: v for k, v in stats.items() if k.startswith('http:')},
        'preemption_points_offered': stats.get('preempt_points', 0),
        'reach_probes': dict(probes),
        'real_components': ['provider.gateway.rest.Gateway/Apply + Starlette routing, request and response objects (half of the runs)', 'runtime._service.Engine', 'dispatch.Wrapper/Dealer/Frozen', 'prediction.Executor/Pool/'
                            'Pool.Worker/Task/Result', 'pyfunc.Runner/Expression', 'flow.compile', 'application.'
                            'Generic/Explicit/Latest/ABTest', 'layout codecs (json)', 'asset.Directory/Instance/State',
                            'posix.Registry on a really trained template registry', 'generated project packages'],
        'stubbed_components': ['OS processes and threads (kernel tasks; spawn = ForkingPickler copy, fork = deep copy)',
                               'multiprocessing.Manager queues/events (pickle every item)',
                               'ThreadPoolExecutor/ProcessPoolExecutor (process flavour pickles call and result)',
                               'asyncio event loop (virtual time)', 'clock', 'inventory (in-memory; the real posix inventory and forml\'s component loader only when C16_POSIX is set)',
                               'uvicorn (the gateway\'s server= seam hands the ASGI application to simulated HTTP clients)'],
        'sweep_completed': exhausted, 'harness_errors': len(errors),
    }
    base.write_evidence(PROP, tier, seed0, 'exploration', coverage, wall, nviol, [
        'pre-emption model is CPython 3.12 GIL-faithful: thread switches only at function entry, backward jumps and '
        'after calls, and only inside the whitelisted forml files',
        'process tasks are atomic between IPC operations',
        'about half of the runs go through the real REST gateway provider (its Starlette application driven over ASGI '
        'by simulated HTTP clients); uvicorn itself (sockets, HTTP parsing) is outside the simulation',
        'a clean batch is evidence, not proof'])
    print(f'{PROP}: runs={nruns} requests={nreq} steps={steps} vtime={vtime:.0f}s distinct_traces={len(digests)} '
          f'violations={nviol} known={len(known)} harness_errors={len(errors)} wall={wall:.1f}s')
    for err in errors[:5]:
        print('HARNESS-ERROR:', err[:800], file=sys.stderr)
    if nviol:
        return base.EXIT_VIOLATION
    return base.EXIT_HARNESS if errors else base.EXIT_OK
