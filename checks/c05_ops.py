"""Operations a crashbox child executes for C05 (real forml code only; no model logic here)."""
import os
import pathlib
import uuid

from crashbox import disk as diskmod

from forml import project as prj
from forml.io import asset
from forml.provider.registry.filesystem import posix


def _registry(ctx) -> posix.Registry:
    if 'registry' not in ctx:
        root = pathlib.Path(ctx['root'])
        if os.environ.get('C05_REGISTRY') == 'volatile':  # lives in this process only (history half of the property)
            from forml.provider.registry.filesystem import volatile  # pylint: disable=import-outside-toplevel

            ctx['registry'] = volatile.Registry()
        else:
            name = os.environ.get('C05_ROOTNAME', 'registry')  # another tenant's registry next to the main one
            ctx['registry'] = posix.Registry(root / name, staging=root / ('staging' if name == 'registry' else
                                                                           f'{name}.staging'))
        ctx['directory'] = asset.Directory(ctx['registry'])
    return ctx['registry']


def _directory(ctx) -> asset.Directory:
    _registry(ctx)
    return ctx['directory']


def publish(ctx, package: str):
    pkg = prj.Package(package)
    _directory(ctx).get(pkg.manifest.name).put(pkg)
    return 'accepted'


def train(ctx, project: str, release: str, states: list, lose=None):
    """Exactly what runtime.Runner.train does with its asset accessor: tag = previous tag with the
    training triggered, one dump per stateful actor in actor order, one commit."""
    instance = asset.Instance(project, release, None, _directory(ctx))
    nodes = [uuid.uuid4() for _ in states]
    accessor = instance.state(nodes, instance.tag.training.trigger())
    sids = [accessor.dump(bytes.fromhex(s)) for s in states]
    if lose is not None:  # injected fault: a staged state file vanishes before the commit
        registry = _registry(ctx)
        path = registry._path.state(sids[lose], asset.Project.Key(project), asset.Release.Key(release))  # pylint: disable=protected-access
        diskmod.REAL['unlink'](path)
    accessor.commit(sids)
    return int(accessor._generation.key)  # pylint: disable=protected-access


def train_begin(ctx, slot: int, project: str, release: str, states: list):
    """First half of a training: compose against the current latest generation (reads its tag) and stage the states.
    The handle stays open in this process until train_commit - other trainers may commit in between."""
    instance = asset.Instance(project, release, None, _directory(ctx))
    nodes = [uuid.uuid4() for _ in states]
    accessor = instance.state(nodes, instance.tag.training.trigger())
    sids = [accessor.dump(bytes.fromhex(s)) for s in states]
    ctx.setdefault('open', {})[slot] = (accessor, sids)
    return len(sids)


def train_commit(ctx, slot: int):
    accessor, sids = ctx['open'].pop(slot)
    accessor.commit(sids)
    return int(accessor._generation.key)  # pylint: disable=protected-access


def _err(err: BaseException) -> str:
    return f'ERR:{type(err).__name__}:{str(err)[:120]}'


def observe(ctx, where=None):
    """List and read back everything through the public asset API. With `where`: through a registry object made for
    this one call over that directory (a process may see several registries come and go - backups, other tenants)."""
    if where is None:
        registry = _registry(ctx)
        directory = _directory(ctx)
    else:
        root = pathlib.Path(ctx['root'])
        registry = posix.Registry(root / where, staging=root / ('staging' if where == 'registry' else f'{where}.staging'))
        directory = asset.Directory(registry)
    out = {}
    for pkey in directory.list():
        project = directory.get(pkey)
        releases = {}
        raw_rel = [str(r) for r in registry.releases(pkey)]
        for rkey in project.list():
            release = project.get(rkey)
            try:
                if os.environ.get('C05_REGISTRY') == 'volatile':  # no packages are kept: the mounted artifact is
                    artifact = registry.mount(pkey, rkey)
                    manifest = prj.Manifest.read(artifact.path)
                else:
                    manifest = registry.pull(pkey, rkey).manifest
                man = [str(manifest.name), str(manifest.version), manifest.package]
            except Exception as err:  # pylint: disable=broad-except
                man = _err(err)
            gens = {}
            raw_gen = sorted(int(g) for g in registry.generations(pkey, rkey))
            for gkey in release.list():
                generation = release.get(gkey)
                states = []
                try:
                    tag = generation.tag
                    meta = {'states': len(tag.states), 'trained': bool(tag.training)}
                except Exception as err:  # pylint: disable=broad-except
                    meta = _err(err)
                else:
                    for idx in range(len(tag.states)):
                        try:
                            states.append(generation.get(idx).hex())
                        except Exception as err:  # pylint: disable=broad-except
                            states.append(_err(err))
                gens[int(gkey)] = {'tag': meta, 'states': states}
            releases[str(rkey)] = {'manifest': man, 'gens': gens, 'raw_gen': raw_gen}
        latest = None
        try:
            instance = asset.Instance(pkey, None, None, directory)
            generation = instance._generation  # pylint: disable=protected-access
            try:
                gkey = int(generation.key)
            except asset.Level.Listing.Empty:
                gkey = None
            latest = [str(generation.release.key), gkey]
        except Exception as err:  # pylint: disable=broad-except
            latest = _err(err)
        out[str(pkey)] = {'releases': releases, 'raw_rel': sorted(raw_rel), 'latest': latest}
    return out


def read_explicit(ctx, project: str, release: str, generation: int):
    """Explicit read of one generation (no listing of siblings involved beyond key validation)."""
    instance = asset.Instance(project, release, generation, _directory(ctx))
    tag = instance.tag
    gen = instance._generation  # pylint: disable=protected-access
    return [gen.get(i).hex() for i in range(len(tag.states))]


def mount(ctx, project: str, release: str):
    """Install the release package through the registry staging (what every runner does first)."""
    artifact = _registry(ctx).mount(asset.Project.Key(project), asset.Release.Key(release))
    return os.path.exists(artifact.path)


OPS = {'publish': publish, 'train': train, 'train_begin': train_begin, 'train_commit': train_commit, 'observe': observe, 'read_explicit': read_explicit, 'mount': mount}
