"""C11 - graph construction keeps topology invariants under any call sequence (Engine A'': the
"scheduler" owns object lifetimes).

The graph layer keeps a process-global registry (``Subscription._PORTS``) that is mutated by
*finalisers*; whether a port counts as taken depends on when a ``Subscription`` tuple is destroyed -
on reference lifetimes and GC timing the caller does not control. The simulator controls them:
``gc`` is disabled, the harness owns every reference, and "keep the caught exception alive",
"release it" and "collect now" are seeded schedule events mixed into seeded sequences of
construction calls. The reference is an abstract edge-set model in which lifetime events are no-ops.
"""
import collections
import gc
import json
import pathlib
import random
import sys
import time
import typing
import weakref

from forml import flow
from forml.flow._graph import atomic, port, span

from detsim import runner as runmod
from vlib import base
from workloads import graphs

PROP = 'C11'
MAXNODES = 9
GC_FILES = ('forml/flow/_graph/port.py', 'forml/flow/_graph/atomic.py')
T, L = 'T', 'L'


def pname(q) -> str:
    return q if isinstance(q, str) else f'A{q[1]}'


# ------------------------------------------------------------------------------------------------
# abstract model
# ------------------------------------------------------------------------------------------------
class Model:
    """Edge-set model. Raw edges connect (node, out port) to (node, in port); futures are transparent."""

    def __init__(self):
        self.nodes: dict[int, dict] = {}
        self.raw: list[tuple] = []  # (p, b, d, q) in insertion order; q = ('A', a) | 'T' | 'L'
        self.groups = 0

    def clone(self) -> 'Model':
        other = Model()
        other.nodes = {k: dict(v) for k, v in self.nodes.items()}
        other.raw = list(self.raw)
        other.groups = self.groups
        return other

    # -- derived ------------------------------------------------------------------------------
    def is_future(self, n: int) -> bool:
        return self.nodes[n]['kind'] == 'future'

    def sources(self, p: int, b: int, seen=()) -> set:
        if not self.is_future(p):
            return {(p, b)}
        out = set()
        for pp, bb, d, q in self.raw:
            if d == p and q == ('A', b) and (pp, bb) not in seen:
                out |= self.sources(pp, bb, seen + ((pp, bb),))
        return out

    def sinks(self, d: int, q, seen=()) -> set:
        if not self.is_future(d):
            return {(d, q)}
        out = set()
        for p, b, dd, qq in self.raw:
            if p == d and b == q[1] and (dd, qq) not in seen:
                out |= self.sinks(dd, qq, seen + ((dd, qq),))
        return out

    def effective(self) -> set:
        out = set()
        for p, b, d, q in self.raw:
            for s in self.sources(p, b):
                for t in self.sinks(d, q):
                    out.add((s[0], s[1], t[0], t[1]))
        return out

    def taken(self, d: int) -> set:
        return {q for _, _, dd, q in self.raw if dd == d}

    def trained(self, n: int) -> bool:
        return not self.is_future(n) and bool(self.taken(n) & {T, L})

    def future_cycle(self, p: int, d: int) -> bool:
        """Would registering future p into future d close a loop of futures?"""
        if not (self.is_future(p) and self.is_future(d)):
            return False
        stack, seen = [p], set()
        while stack:
            cur = stack.pop()
            if cur == d:
                return True
            for pp, _, dd, _ in self.raw:
                if dd == cur and self.is_future(pp) and pp not in seen:
                    seen.add(pp)
                    stack.append(pp)
        return False

    # -- transitions --------------------------------------------------------------------------
    def check_edge(self, p: int, b: int, d: int, q) -> typing.Optional[str]:
        """None if connecting output (p, b) to input (d, q) is legal, else the reason."""
        eff = self.effective()
        if self.is_future(d):
            if d == p:
                return 'future subscribing to itself'
            if q in (T, L):
                return 'future can not be trained'
        else:
            taken = self.taken(d)
            if q in taken:
                return 'double subscription'
            if taken and ((q not in (T, L)) != all(x not in (T, L) for x in taken)):
                return 'apply/train collision'
            if q in (T, L) and any(e[0] == d for e in eff):
                return 'publishing node trained'
        srcs = self.sources(p, b)
        snks = self.sinks(d, q)
        for s in srcs:
            for t in snks:
                if self.trained(s[0]):
                    return 'trained node publishing'
                if s[0] == t[0]:
                    return 'self subscription'
        for t in snks:
            feeding = {(e[0], e[1]) for e in eff if (e[2], e[3]) == t}
            if (feeding | srcs) and len(feeding | srcs) > 1:
                return 'second publisher on an input port (through a placeholder)'
        return None

    def add_edge(self, p: int, b: int, d: int, q) -> None:
        self.raw.append((p, b, d, q))

    # -- lifetimes ------------------------------------------------------------------------------
    def dropped(self, n: int) -> bool:
        return bool(self.nodes[n].get('dropped'))

    def kill(self, n: int) -> None:
        """The (dropped) node is gone: its subscriptions died with it, the ports they held are free again."""
        self.raw[:] = [e for e in self.raw if e[0] != n and e[2] != n]
        del self.nodes[n]

    # -- expected observation -------------------------------------------------------------------
    def expected(self, full: bool = False) -> dict:
        """What the harness can see: nodes it still holds; a node it let go of (but which is kept alive by others)
        shows up in their subscriptions as None. `full`: the model's own view (dropped nodes included)."""
        eff = self.effective()
        out = {}

        def vis(x):
            return x if full or not self.dropped(x) else None

        def order(pairs):
            return sorted(pairs, key=lambda x: (-1 if x[0] is None else x[0], *x[1:]))

        for n, meta in self.nodes.items():
            if not full and meta.get('dropped'):
                continue
            if meta['kind'] == 'worker':
                outs = [order({(vis(e[2]), pname(e[3])) for e in eff if e[0] == n and e[1] == b})
                        for b in range(meta['szout'])]
                out[n] = {'kind': 'worker', 'in': sorted(pname(q) for q in self.taken(n)), 'trained': self.trained(n),
                          'out': outs, 'group': sorted(m for m, mm in self.nodes.items()
                                                       if mm['kind'] == 'worker' and mm['group'] == meta['group']
                                                       and (full or not mm.get('dropped')))}
            else:
                outs = [order({(vis(t[0]), pname(t[1])) for p, bb, d, q in self.raw if p == n and bb == b
                               for t in self.sinks(d, q)}) for b in range(meta['szout'])]
                reg = order((vis(p), b, q[1]) for p, b, d, q in self.raw if d == n)
                out[n] = {'kind': 'future', 'out': outs, 'reg': reg}
        return out

    # -- traversal model (Segment tracing) ---------------------------------------------------------
    def subs(self, n: int) -> list[int]:
        """Nodes a traversal steps to from n (raw output subscriptions as the real objects hold them)."""
        exp = self.expected(full=True)[n]
        seen, out = set(), []
        for portsubs in exp['out']:
            for d, _ in portsubs:
                if d not in seen:
                    seen.add(d)
                    out.append(d)
        return out

    def node_eq(self, x: int, y: int):
        """Node.__eq__: identity within a class, equal non-empty subscriptions across classes.
        Returns True/False or None when the answer depends on subscription order."""
        if x == y:
            return True
        if self.nodes[x]['kind'] == self.nodes[y]['kind']:
            return False
        ex, ey = self.expected(full=True)[x]['out'], self.expected(full=True)[y]['out']
        if len(ex) != len(ey) or not ex:
            return False
        if all(a == b for a, b in zip(ex, ey)):
            return None if any(len(a) > 1 for a in ex) else True
        return False

    def has_cycle_from(self, head: int) -> bool:
        state: dict[int, int] = {}

        def visit(n: int) -> bool:
            state[n] = 1
            for d in self.subs(n):
                if state.get(d) == 1 or (d not in state and visit(d)):
                    return True
            state[n] = 2
            return False

        try:
            return visit(head)
        except RecursionError:
            return True

    def between(self, head: int, tail: int) -> typing.Optional[set]:
        """Nodes on some head-to-tail path over untrained subscribers (what Segment.copy forks); None when the
        answer is not a plain function of the edges (placeholders around, cycles)."""
        if any(m['kind'] == 'future' for m in self.nodes.values()):
            return None
        found: set = set()

        def walk(n: int, members: tuple) -> bool:
            if n == tail:
                found.update(members)
                return True
            for d in self.subs(n):
                if self.trained(d):
                    continue
                if d in members:
                    raise RecursionError
                walk(d, members + (d,))
            return False

        try:
            walk(head, (head,))
        except RecursionError:
            return None
        return found or None

    def future_subscribed(self, fut: int, pub: int) -> bool:
        for p, _, d, _ in self.raw:
            if d == fut:
                if p == pub:
                    return True
                if self.is_future(p):
                    if self.future_subscribed(p, pub):
                        return True
                elif p in self.subs(pub):
                    return True
        return False

    def trace(self, head: int, tail: typing.Optional[int]):
        """-> ('ok', tail) | ('error', reason) | ('unknown', why) for Segment(head, tail)."""
        if self.nodes[head]['szin'] > 1:
            return 'unknown', 'simple head required'

        class Cyc(Exception):
            pass

        class Unknown(Exception):
            pass

        def mappers(n, members, extra=None):
            out = []
            cands = list(self.subs(n))
            if extra is not None and self.is_future(extra) and self.future_subscribed(extra, n) and extra not in cands:
                cands.append(extra)
            for d in cands:
                if self.trained(d):
                    continue
                if d in members:
                    raise Cyc()
                out.append(d)
            return out

        try:
            if tail is not None:
                def exists(n, members):
                    eq = self.node_eq(n, tail)
                    if eq is None:
                        raise Unknown()
                    if eq:
                        return True
                    return any(exists(m, members | {m}) for m in mappers(n, members, tail))

                if not exists(head, {head}):
                    return 'unknown', 'disconnected tail'
                return 'unknown', 'explicit tail (short-circuit search)'
            else:
                def scan(n, members):
                    leaves = set()
                    for m in mappers(n, members):
                        leaves |= scan(m, members | {m})
                    return leaves or {n}

                leaves = scan(head, {head})
                if len(leaves) > 1:
                    return 'unknown', 'ambiguous tail'
                found = leaves.pop()
        except Cyc:
            if tail is not None:
                return 'unknown', 'cycle next to an explicit tail (the real search short-circuits in subscription order)'
            return 'error', 'cyclic'
        except Unknown:
            return 'unknown', 'order dependent equality'
        except RecursionError:
            return 'unknown', 'recursion'
        if self.nodes[found]['szout'] > 1:
            return 'unknown', 'simple tail required'
        return 'ok', found


# ------------------------------------------------------------------------------------------------
# workload generation
# ------------------------------------------------------------------------------------------------
RETRIES = True
LIFETIMES = True
PORT_LEVEL = True


def gen_ops(rng: random.Random, nops: int) -> list[dict]:
    """Ops are total: indices are taken modulo what exists at execution time."""
    ops = []
    weights = {'worker': 5, 'future': 2, 'fork': 2, 'connect': 14, 'train': 5, 'segment': 3, 'copy': 1.5,
               'compose': 1.5, 'extend': 2.5, 'keep': 2, 'release': 2, 'collect': 1.5, 'drop': 1.5 if LIFETIMES else 0}
    kinds, wts = zip(*weights.items())
    if rng.random() < 0.08:  # swarm: a cycle that does not contain the traced head, each of its nodes also fed by the head
        ops += [{'op': 'worker', 'stateful': False, 'szin': 1, 'szout': 2},
                {'op': 'worker', 'stateful': rng.random() < 0.3, 'szin': 2, 'szout': 1},
                {'op': 'worker', 'stateful': False, 'szin': 2, 'szout': 1},
                {'op': 'worker', 'stateful': False, 'szin': 1, 'szout': 1},
                {'op': 'connect', 'pub': 0, 'b': 0, 'sub': 1, 'a': 0, 'via': 'subscribe'},
                {'op': 'connect', 'pub': 0, 'b': 1, 'sub': 2, 'a': 0, 'via': 'publish'},
                {'op': 'connect', 'pub': 1, 'b': 0, 'sub': 2, 'a': 1, 'via': 'subscribe'},
                {'op': 'connect', 'pub': 2, 'b': 0, 'sub': 1, 'a': 1, 'via': 'subscribe'}]
        if rng.random() < 0.7:
            ops.append({'op': 'connect', 'pub': rng.choice([1, 2]), 'b': 0, 'sub': 3, 'a': 0, 'via': 'subscribe'})
        ops.append({'op': 'segment', 'head': 0, 'tail': None})
    if LIFETIMES and rng.random() < 0.06:
        # swarm: a subscriber whose only publisher the harness lets go of; the collector then runs somewhere inside the
        # next subscription of that subscriber
        ops += [{'op': 'worker', 'stateful': False, 'szin': 1, 'szout': 1},
                {'op': 'worker', 'stateful': rng.random() < 0.3, 'szin': 2, 'szout': 1},
                {'op': 'worker', 'stateful': False, 'szin': 1, 'szout': 1},
                {'op': 'connect', 'pub': 0, 'b': 0, 'sub': 1, 'a': 0, 'via': rng.choice(['subscribe', 'publish'])},
                {'op': 'drop', 'node': 0},
                {'op': 'connect', 'pub': 2, 'b': 0, 'sub': 1, 'a': 1, 'via': rng.choice(['subscribe', 'publish']),
                 'gc_at': rng.randint(1, 25)}]
    for i in range(nops):
        kind = rng.choices(kinds, wts)[0] if i >= 2 else 'worker'
        op = {'op': kind}
        if kind == 'worker':
            op.update(stateful=rng.random() < 0.5, szin=rng.choice([1, 1, 2]), szout=rng.choice([1, 1, 2]))
        elif kind == 'future':
            size = rng.choice([1, 1, 1, 2])  # placeholders map input index i to output index i
            op.update(szin=size, szout=size)
        elif kind == 'fork':
            op.update(node=rng.randrange(64))
        elif kind == 'connect':
            op.update(pub=rng.randrange(64), b=rng.randrange(2), sub=rng.randrange(64), a=rng.randrange(2),
                      via=rng.choice(['subscribe', 'publish']))
            if PORT_LEVEL and rng.random() < 0.12:
                op['via'] = rng.choice(['publish-train', 'publish-label'])  # the port API reaches Train / Label ports too
            if RETRIES and rng.random() < 0.4:
                op['retry'] = True
            if LIFETIMES and rng.random() < 0.3:
                op['gc_at'] = rng.randint(1, 40)
        elif kind == 'drop':
            op.update(node=rng.randrange(64))
        elif kind == 'train':
            op.update(node=rng.randrange(64), tp=rng.randrange(64), tb=rng.randrange(2), lp=rng.randrange(64),
                      lb=rng.randrange(2))
            if RETRIES and rng.random() < 0.4:
                op['retry'] = True
        elif kind == 'segment':
            op.update(head=rng.randrange(64), tail=rng.choice([None, None, rng.randrange(64)]))
        elif kind in ('copy', 'compose'):
            op.update(seg=rng.randrange(64), mode=rng.choice(['apply', 'apply', 'train']))
        elif kind == 'extend':
            op.update(left=rng.randrange(64), right=rng.randrange(64), mode=rng.choice(['apply', 'train', 'label']),
                      route=rng.choice(['segment.extend', 'segment.extend', 'segment.subscribe', 'publisher.subscribe',
                                        'trunk.extend', 'trunk.extend', 'node.extend']))
        elif kind == 'release':
            op.update(slot=rng.randrange(8))
        ops.append(op)
    return ops


# ------------------------------------------------------------------------------------------------
# execution against the real graph layer
# ------------------------------------------------------------------------------------------------
class _NotAttempted(Exception):
    """A call that was refused for a reason outside the model before it touched the graph."""


class World:
    """The real objects of one case; the harness owns every reference."""

    def __init__(self):
        self.nodes: list = []
        self.segments: list = []  # (segment, head idx, tail idx)
        self.kept: list = []  # exceptions kept alive on purpose (their tracebacks pin frames and locals)
        self.keep_next = False
        self.refs: dict = {}  # index -> weak reference of a node the harness let go of (entry in `nodes` is None)

    def index(self, obj) -> typing.Optional[int]:
        for i, n in enumerate(self.nodes):
            if n is obj:
                return i
        return None

    def observe(self) -> dict:
        out = {}
        for i, node in enumerate(self.nodes):
            if node is None:
                continue
            outs = []
            for subs in node.output:
                outs.append(sorted({(self.index(s.node), _portname(s.port)) for s in subs},
                                   key=lambda x: (-1 if x[0] is None else x[0], x[1])))
            if isinstance(node, atomic.Worker):
                out[i] = {'kind': 'worker', 'in': sorted(_portname(p) for p in node.input), 'trained': node.trained,
                          'out': outs, 'group': sorted(self.index(m) for m in node.group if self.index(m) is not None)}
            else:
                reg = sorted(((self.index(p._node), p._index, int(a))  # pylint: disable=protected-access
                              for p, a in node._input.items()),  # pylint: disable=protected-access
                             key=lambda x: (-1 if x[0] is None else x[0], *x[1:]))
                out[i] = {'kind': 'future', 'out': outs, 'reg': reg}
        return out

    def invariants(self) -> typing.Optional[str]:
        """Topology invariants recomputed from the real objects only (workers are the real publishers)."""
        feeds = collections.defaultdict(set)
        anyfeeds = collections.defaultdict(set)  # including placeholder publishers
        for i, node in enumerate(self.nodes):
            if node is None:
                continue
            for b, subs in enumerate(node.output):
                for s in subs:
                    d = self.index(s.node)
                    if d is None:
                        continue  # a subscriber the harness let go of (alive only through this subscription)
                    anyfeeds[d].add(_portname(s.port))
                    if not isinstance(node, atomic.Worker):
                        continue
                    if d == i:
                        return f'node {i} feeds itself'
                    feeds[(d, _portname(s.port))].add((i, b))
        for (d, q), pubs in feeds.items():
            if len(pubs) > 1:
                return f'input port {q} of node {d} has {len(pubs)} publishers {sorted(pubs)}'
        by_node = collections.defaultdict(set)
        for (d, q) in feeds:
            by_node[d].add(q)
        for d, ports in by_node.items():
            if (ports & {T, L}) and (ports - {T, L}):
                return f'node {d} is subscribed for both training and applying: {sorted(ports)}'
        groups = collections.defaultdict(list)
        hidden = any(n is None for n in self.nodes)
        for i, node in enumerate(self.nodes):
            if isinstance(node, atomic.Worker):
                edge_trained = bool(anyfeeds.get(i, set()) & {T, L})
                if bool(by_node.get(i, set()) & {T, L}):
                    groups[id(node._group)].append(i)  # pylint: disable=protected-access
                    if any(node.output):
                        return f'trained node {i} publishes'
                if edge_trained != node.trained and not hidden:  # (a publisher out of sight may feed the port)
                    return f'node {i}: trained={node.trained} but its training ports are fed by {sorted(anyfeeds.get(i, []))}'
        for members in groups.values():
            if len(members) > 1:
                return f'worker group has {len(members)} trained members {members}'
        return None


def _portname(p) -> str:
    if isinstance(p, port.Train):
        return T
    if isinstance(p, port.Label):
        return L
    return f'A{int(p)}'


class CaseViolation(Exception):
    def __init__(self, klass: str, detail: str, step: int):
        super().__init__(detail)
        self.klass, self.detail, self.step = klass, detail, step


def run_case(ops: list[dict], known_sites: typing.Sequence[str] = ()) -> dict:
    """Execute one op sequence against the real graph layer and the model. -> result dict."""
    gc.disable()
    gc.collect()
    if not getattr(run_case, 'frozen', False):
        gc.freeze()  # the pre-imported image is immortal: later collections only walk this case's objects
        run_case.frozen = True
    port.Subscription._PORTS.clear()  # pylint: disable=protected-access
    world, model = World(), Model()
    stats = collections.Counter()
    executed = []
    known_hits = []
    violation = None

    def sync_deaths() -> int:
        """Nodes the harness let go of die when the collector (a simulator event) finds them unreachable."""
        died = 0
        for idx, ref in list(world.refs.items()):
            if ref() is None:
                model.kill(idx)
                del world.refs[idx]
                died += 1
        stats['node-deaths'] += died
        return died

    def with_gc(fn, at: int):
        """The cyclic collector may run at any allocation: here at the `at`-th line executed inside the graph layer."""
        count = [0]

        def local(frame, event, arg):  # pylint: disable=unused-argument
            if event == 'line':
                count[0] += 1
                if count[0] == at:
                    stats['fault:gc-inside-a-call'] += 1
                    gc.collect()
            return local

        def tracer(frame, event, arg):  # pylint: disable=unused-argument
            return local if frame.f_code.co_filename.endswith(GC_FILES) else None

        def run():
            sys.settrace(tracer)
            try:
                return fn()
            finally:
                sys.settrace(None)

        return run

    def call(fn, where: str, expect_error: typing.Optional[str], step: int, mutate=None, unknown=False,
             only_cycles: typing.Optional[bool] = None, retry: bool = False, gc_at: typing.Optional[int] = None):
        """Run one API call; compare verdict; on error require the graph to be exactly as it was."""
        lenient = False
        if gc_at and world.refs:
            fn = with_gc(fn, gc_at)
        before = world.observe()
        err = None
        try:
            result = fn()
        except flow.TopologyError as exc:
            err = exc
            result = None
        except RecursionError:
            raise CaseViolation('harness-recursion', where, step) from None
        if gc_at and sync_deaths():
            # nodes died inside the call: whether that happened before or after the call's own checks decides its
            # verdict - both are legal; what the graph looks like afterwards is compared with the model as ever
            lenient = unknown = True
            retry = False
        verdict = 'error' if err is not None else 'ok'
        stats[f'verdict:{verdict}'] += 1
        cyclic = isinstance(err, span.Traversal.Cyclic)
        if err is not None:
            if world.keep_next:
                world.kept.append(err)  # the traceback pins the frames (and the half-made subscription)
                world.keep_next = False
                stats['fault:exception-kept-alive'] += 1
            reason = str(err)
            del err
            if lenient:
                if world.observe() != model.expected():
                    raise CaseViolation('state-changed-after-error',
                                        f'{where}: raised TopologyError({reason}) (nodes died inside the call) but the '
                                        f'graph changed: {_diff(model.expected(), world.observe())}', step)
                return None
            after = world.observe()
            if retry:
                # a refused call repeated verbatim is refused again ("failed calls followed by retries") - also when
                # the first refusal left something behind (listed findings): then the retry is the only thing
                # still judged, on the state as the refusal left it
                stats['retries'] += 1
                try:
                    fn()
                except flow.TopologyError:
                    pass
                else:
                    raise CaseViolation('refused-call-accepted-on-retry',
                                        f'{where}: raised TopologyError({reason}); the identical call repeated right '
                                        f'away was accepted', step)
                if after == before and world.observe() != before:
                    raise CaseViolation('state-changed-after-error',
                                        f'{where}: refused twice (TopologyError({reason})), the second refusal changed '
                                        f'the graph: {_diff(before, world.observe())}', step)
            if after != before:
                raise CaseViolation('state-changed-after-error',
                                    f'{where}: raised TopologyError({reason}) but the graph changed: '
                                    f'{_diff(before, after)}', step)
            if only_cycles is not None:
                # tracing a segment may be refused for reasons the property does not list (ambiguous / disconnected
                # tail, shape); what it does list is that cycles are rejected - and only cycles are called cycles
                # (with placeholders around, Node.__eq__ across classes can make a traversal see a node "again")
                if cyclic and not only_cycles and not any(m['kind'] == 'future' for m in model.nodes.values()):
                    raise CaseViolation('spurious-error', f'{where}: raised Cyclic({reason}) but no cycle is reachable '
                                                          f'in the model', step)
                return None
            if not unknown and expect_error is None:
                raise CaseViolation('spurious-error', f'{where}: raised TopologyError({reason}), the model accepts it',
                                    step)
            return None
        if not unknown and expect_error is not None:
            raise CaseViolation('missing-error', f'{where}: accepted, the model refuses it ({expect_error})', step)
        if mutate:
            mutate()
        return result

    try:
        for step, op in enumerate(ops):
            kind = op['op']
            executed.append(op)
            nn = len(world.nodes)
            if kind in ('worker', 'future', 'fork') and nn >= MAXNODES:
                continue
            if kind == 'worker':
                builder = graphs.Estimator.builder(hyper=nn) if op['stateful'] else graphs.Mapper.builder()
                world.nodes.append(flow.Worker(builder, op['szin'], op['szout']))
                model.groups += 1
                model.nodes[nn] = {'kind': 'worker', 'szin': op['szin'], 'szout': op['szout'],
                                   'stateful': op['stateful'], 'group': model.groups}
            elif kind == 'future':
                world.nodes.append(flow.Future(op['szin'], op['szout']))
                model.nodes[nn] = {'kind': 'future', 'szin': op['szin'], 'szout': op['szout'], 'stateful': False,
                                   'group': None}
            elif kind == 'drop':
                if not nn:
                    continue
                n = op['node'] % nn
                if world.nodes[n] is None or not isinstance(world.nodes[n], atomic.Worker):
                    continue
                # the harness lets go of the node: it lives on while others hold it and dies at a later collection
                world.refs[n] = weakref.ref(world.nodes[n])
                world.nodes[n] = None
                model.nodes[n]['dropped'] = True
                stats['fault:node-dropped'] += 1
            elif kind == 'fork':
                if not nn:
                    continue
                src = op['node'] % nn
                if world.nodes[src] is None:
                    continue
                world.nodes.append(world.nodes[src].fork())
                meta = dict(model.nodes[src])
                if meta['kind'] == 'future':
                    meta['group'] = None
                model.nodes[nn] = meta
            elif kind == 'connect':
                if nn < 1:
                    continue
                p, d = op['pub'] % nn, op['sub'] % nn
                if world.nodes[p] is None or world.nodes[d] is None:
                    continue
                b = op['b'] % model.nodes[p]['szout'] if model.nodes[p]['szout'] else None
                a = op['a'] % model.nodes[d]['szin'] if model.nodes[d]['szin'] else None
                if b is None or a is None or model.future_cycle(p, d):
                    continue
                q = ('A', a)
                if op['via'] in ('publish-train', 'publish-label'):
                    if model.is_future(d):
                        continue
                    q = T if op['via'] == 'publish-train' else L
                reason = model.check_edge(p, b, d, q)
                where = f'step {step}: node{d}[{a}] <- node{p}[{b}] via {op["via"]}' + (
                    ' [placeholder]' if model.is_future(p) or model.is_future(d) else '')
                if q in (T, L):
                    where = f'step {step}: node{p}[{b}].publish(node{d}, {"Train" if q == T else "Label"}) [port-level]' + (
                        ' [placeholder]' if model.is_future(p) else '')
                    if reason is None and any(model.trained(m) for m, mm in model.nodes.items()
                                              if m != d and mm['kind'] == 'worker' and mm['group'] == model.nodes[d]['group']):
                        reason = 'fork train collision'
                    fn = lambda: world.nodes[p][b].publish(world.nodes[d], port.Train() if q == T else port.Label())  # noqa: E731
                    stats['op:port-level-train-or-label'] += 1
                elif op['via'] == 'subscribe':
                    fn = lambda: world.nodes[d][a].subscribe(world.nodes[p][b])  # noqa: E731
                else:
                    fn = lambda: world.nodes[p][b].publish(world.nodes[d], port.Apply(a))  # noqa: E731
                call(fn, where, reason, step, mutate=lambda: model.add_edge(p, b, d, q), retry=bool(op.get('retry')),
                     gc_at=op.get('gc_at'))
                stats['op:connect'] += 1
            elif kind == 'train':
                if nn < 1:
                    continue
                w, tp, lp = op['node'] % nn, op['tp'] % nn, op['lp'] % nn
                if world.nodes[w] is None or world.nodes[tp] is None or world.nodes[lp] is None:
                    continue
                if model.is_future(w) or not model.nodes[tp]['szout'] or not model.nodes[lp]['szout']:
                    continue
                tb, lb = op['tb'] % model.nodes[tp]['szout'], op['lb'] % model.nodes[lp]['szout']
                reason = None
                if not model.nodes[w]['stateful']:
                    reason = 'stateless node training'
                elif any(model.trained(m) for m, mm in model.nodes.items()
                         if mm['kind'] == 'worker' and mm['group'] == model.nodes[w]['group']):
                    reason = 'fork train collision'
                else:
                    reason = model.check_edge(tp, tb, w, T)
                    if reason is None:
                        trial = model.clone()
                        trial.add_edge(tp, tb, w, T)
                        reason = trial.check_edge(lp, lb, w, L)
                where = f'step {step}: node{w}.train(node{tp}[{tb}], node{lp}[{lb}])' + (
                    ' [placeholder]' if model.is_future(tp) or model.is_future(lp) else '')

                def commit(w=w, tp=tp, tb=tb, lp=lp, lb=lb):
                    model.add_edge(tp, tb, w, T)
                    model.add_edge(lp, lb, w, L)

                try:
                    call(lambda: world.nodes[w].train(world.nodes[tp][tb], world.nodes[lp][lb]), where, reason, step,
                         mutate=commit, retry=bool(op.get('retry')) and reason in ('stateless node training',
                                                                                    'fork train collision'))
                except CaseViolation as err:
                    # listed finding 'train-not-atomic': the refused train kept its Train subscription. Adopt exactly
                    # that state (and nothing else) so that the rest of the sequence is still judged.
                    trial = model.clone()
                    trial.add_edge(tp, tb, w, T)
                    exact = err.klass == 'state-changed-after-error' and world.observe() == trial.expected()
                    if exact:  # precisely the listed shape: the Train subscription (and nothing else) was kept
                        err.detail += ' [exactly: the Train subscription was kept, the worker counts as trained]'
                    if not exact or 'train-not-atomic' not in known_sites or world.invariants() is not None:
                        raise
                    model.raw[:] = trial.raw
                    known_hits.append({'id': 'train-not-atomic', 'detail': err.detail, 'step': step})
                    stats['resynced:train-not-atomic'] += 1
                stats['op:train'] += 1
            elif kind == 'segment':
                if nn < 1:
                    continue
                head = op['head'] % nn
                tail = None if op['tail'] is None else op['tail'] % nn
                if world.nodes[head] is None or (tail is not None and world.nodes[tail] is None) or world.refs:
                    continue  # (tracing is not judged while nodes out of the harness' sight are around)
                status, info = model.trace(head, tail)
                where = f'step {step}: Segment(node{head}, {None if tail is None else f"node{tail}"})'
                seg = call(lambda: flow.Segment(world.nodes[head], None if tail is None else world.nodes[tail]), where,
                           info if status == 'error' else None, step, unknown=status == 'unknown',
                           only_cycles=model.has_cycle_from(head))
                stats['op:segment'] += 1
                if seg is not None:
                    real_tail = world.index(seg._tail)  # pylint: disable=protected-access
                    if status == 'ok' and real_tail != info and model.node_eq(real_tail, info) is False:
                        raise CaseViolation('wrong-tail', f'{where}: traced tail node{real_tail}, the model says '
                                                          f'node{info}', step)
                    world.segments.append((seg, head, real_tail))
            elif kind == 'copy':
                if not world.segments:
                    continue
                seg, head, tail = world.segments[op['seg'] % len(world.segments)]
                if len(world.nodes) + 4 > MAXNODES + 6 or world.refs or any(n is None for n in world.nodes):
                    continue
                before = world.observe()
                sizes = [len(n.group) if isinstance(n, atomic.Worker) else None for n in world.nodes]
                between = model.between(head, tail)
                try:
                    clone = seg.copy()
                except (flow.TopologyError, KeyError) as exc:
                    # a segment whose trace became invalid since it was created may be refused, never half-copied
                    if world.observe() != before:
                        raise CaseViolation('state-changed-after-error', f'step {step}: copy raised {exc} but the '
                                                                         f'graph changed', step) from None
                    stats['copy-refused'] += 1
                    continue
                if world.observe() != before:
                    raise CaseViolation('copy-mutated-original', f'step {step}: Segment.copy() changed the original '
                                                                 f'graph: {_diff(before, world.observe())}', step)
                if between is not None:
                    # copy() forks exactly the nodes on the head-to-tail paths (every fork joins its original's group)
                    for i, node in enumerate(world.nodes):
                        if sizes[i] is None:
                            continue
                        want = sum(1 for m in between if model.nodes[m]['group'] == model.nodes[i]['group'])
                        if len(node.group) - sizes[i] != want:
                            raise CaseViolation('copy-forked-wrong-nodes',
                                                f'step {step}: Segment(node{head}..node{tail}).copy() - the nodes between '
                                                f'head and tail are {sorted(between)}; the group of node{i} grew by '
                                                f'{len(node.group) - sizes[i]} instead of {want}', step)
                    stats['copy-structure-checked'] += 1
                stats['op:copy'] += 1
                del clone  # copies are checked for isolation only; they die here (their subscriptions with them)
            elif kind == 'compose':
                if not world.segments:
                    continue
                seg, head, tail = world.segments[op['seg'] % len(world.segments)]
                if world.refs or any(n is None for n in world.nodes):
                    continue
                status, info = model.trace(tail, None)
                visited_future = _visits_future(model, head, info if status == 'ok' else None)
                expect = None
                if status == 'error':
                    expect = info
                elif status == 'ok' and visited_future:
                    expect = 'placeholder in composition'
                mode = op.get('mode', 'apply')
                where = f'step {step}: Composition with Segment(node{head}..node{tail}) as its {mode} segment'
                call(lambda: flow.Composition(graphs.Const(flow.Trunk(**{mode: seg}))), where, expect, step,
                     unknown=status == 'unknown' or visited_future is None or model.has_cycle_from(head),
                     only_cycles=model.has_cycle_from(head))
                stats['op:compose'] += 1
            elif kind == 'extend':
                # the segment / trunk level routes to a connection: left's tail publishes to right's head, and (all
                # routes but the bare subscriptions) the joint segment is traced anew
                if not world.segments or world.refs or any(n is None for n in world.nodes):
                    continue
                lseg, lhead, ltail = world.segments[op['left'] % len(world.segments)]
                rseg, rhead, rtail = world.segments[op['right'] % len(world.segments)]
                if ltail is None or rtail is None or not model.nodes[ltail]['szout'] or not model.nodes[rhead]['szin']:
                    continue
                if model.future_cycle(ltail, rhead):
                    continue
                route = op['route']
                if route == 'node.extend' and rhead != rtail:
                    route = 'segment.extend'
                reason = model.check_edge(ltail, 0, rhead, ('A', 0))
                where = f'step {step}: Segment(node{lhead}..node{ltail}) extended by Segment(node{rhead}..node{rtail}) via {route}' + (
                    ' [placeholder]' if model.is_future(ltail) or model.is_future(rhead) else '')
                snapshot = world.observe()
                retraced = []

                def connect_and_trace(route=route, lseg=lseg, rseg=rseg, rhead=rhead, reason=reason):
                    try:
                        if route == 'segment.extend':
                            return lseg.extend(rseg)
                        if route == 'node.extend':
                            return lseg.extend(world.nodes[rhead])
                        if route == 'trunk.extend':
                            return getattr(flow.Trunk(**{op['mode']: lseg}).extend(**{op['mode']: rseg}), op['mode'])
                        if route == 'segment.subscribe':
                            rseg.subscribe(lseg)
                        else:
                            rseg.subscribe(lseg.publisher)
                        return None
                    except flow.TopologyError as exc:
                        if (str(exc).startswith('Simple ') or (route == 'node.extend' and reason is None)) \
                                and world.observe() == snapshot:
                            # the bare node can not be traced as a segment of its own (shape, ambiguous or disconnected
                            # tail): refused before anything was connected - not a verdict on the connection
                            raise _NotAttempted() from None
                        if route.endswith('subscribe') or reason is not None or world.observe() == snapshot:
                            raise  # refused as a whole: judged as the refusal of the connection
                        retraced.append(True)  # connected; tracing the joint segment was refused (cycle, shape, ...)
                        return None

                try:
                    joint = call(connect_and_trace, where, reason, step,
                                 mutate=lambda: model.add_edge(ltail, 0, rhead, ('A', 0)))
                except _NotAttempted:
                    stats['extend:refused-for-shape'] += 1
                    continue
                stats['op:extend'] += 1
                stats['extend:connection-refused'] += reason is not None
                stats['extend:joint-trace-refused'] += bool(retraced)
                if joint is not None:
                    if joint._head is not world.nodes[lhead]:  # pylint: disable=protected-access
                        raise CaseViolation('wrong-head', f'{where}: the joint segment starts at node'
                                                          f'{world.index(joint._head)}', step)  # pylint: disable=protected-access
                    world.segments.append((joint, lhead, world.index(joint._tail)))  # pylint: disable=protected-access
                    stats['extend:joint-segment'] += 1
            elif kind == 'keep':
                world.keep_next = True
            elif kind == 'release':
                if world.kept:
                    world.kept.pop(op['slot'] % len(world.kept))
                    stats['fault:exception-released-late'] += 1
            elif kind == 'collect':
                gc.collect()
                stats['fault:gc-collect'] += 1
            # after every step: real == model, invariants hold
            sync_deaths()
            obs = world.observe()
            exp = model.expected()
            if obs != exp:
                raise CaseViolation('graph-differs-from-model', f'step {step} ({kind}): {_diff(exp, obs)}', step)
            broken = world.invariants()
            if broken:
                raise CaseViolation('invariant-broken', f'step {step} ({kind}): {broken}', step)
    except CaseViolation as err:
        violation = {'class': err.klass, 'detail': err.detail, 'step': err.step}
    finally:
        world.kept.clear()
        world.segments.clear()
        world.nodes.clear()
        world.refs.clear()
        gc.collect()
        gc.enable()
    return {'violation': violation, 'stats': dict(stats), 'executed': len(executed), 'known_hits': known_hits,
            'digest': base.digest([model.raw, sorted(model.nodes)])}


def _visits_future(model: Model, head: int, tail: typing.Optional[int]):
    """Does Traversal(head).each(tail, ...) visit a placeholder (other than the tail itself)?"""
    if tail is None:
        return None
    seen, stack, found = set(), [head], False
    try:
        while stack:
            n = stack.pop()
            if n in seen:
                continue
            seen.add(n)
            at_tail = model.node_eq(n, tail)
            if at_tail is None:
                return None
            if model.is_future(n) and not at_tail:
                found = True
            for d in model.subs(n):
                if at_tail and not model.trained(d):
                    continue
                stack.append(d)
            if model.is_future(tail) and not at_tail and model.future_subscribed(tail, n):
                stack.append(tail)
    except RecursionError:
        return None
    return found


def _diff(exp: dict, obs: dict) -> str:
    parts = []
    for n in sorted(set(exp) | set(obs)):
        if exp.get(n) != obs.get(n):
            parts.append(f'node{n}: expected {exp.get(n)} got {obs.get(n)}')
    return '; '.join(parts)[:500]


# ------------------------------------------------------------------------------------------------
# seed level
# ------------------------------------------------------------------------------------------------
def _run_many(cases: list, known_sites) -> list:
    """Several cases in one process image (state reset between them). Any divergence seen here is re-run alone in
    a fresh process before it is believed, so cross-case contamination can only cost a re-run."""
    import os  # pylint: disable=import-outside-toplevel

    os.dup2(os.open(os.devnull, os.O_WRONLY), 2)  # finalisers of a previous case may complain about the reset registry
    return [run_case(ops, known_sites) for ops in cases]


def run_batch(job) -> dict:
    seeds = job
    out = {'seed': seeds[0], 'cases': 0, 'violations': [], 'known_hits': [], 'stats': collections.Counter(), 'digests': set(),
           'harness': None, 'sample': None}
    cases = []
    for seed in seeds:
        rng = random.Random(seed)
        cases.append(gen_ops(rng, rng.choice([6, 10, 16, 24, 30])))
    try:
        results = runmod.fork_run(_run_many, cases, OPEN_IDS, real_timeout=120, seed=seeds[0])
    except runmod.RunFailed as err:
        out['harness'] = f'seeds {seeds[0]}..: {str(err)[:800]}'
        out['stats'] = {}
        out['digests'] = []
        out['digest'] = None
        return out
    for seed, ops, res in zip(seeds, cases, results):
        if res['violation'] or res['known_hits']:
            try:  # believe only what a fresh process reproduces
                res = runmod.fork_run(run_case, ops, OPEN_IDS, real_timeout=60, seed=seed)
            except runmod.RunFailed as err:
                out['harness'] = f'seed {seed}: {str(err)[:800]}'
                continue
        out['cases'] += 1
        out['stats'].update(res['stats'])
        out['digests'].add(res['digest'])
        for hit in res['known_hits']:
            out['known_hits'].append({**hit, 'seed': seed})
        if res['violation']:
            out['violations'].append({**res['violation'], 'seed': seed, 'ops': ops})
        elif out['sample'] is None and len(ops) <= 10:
            out['sample'] = {'seed': seed, 'ops': ops}
    out['stats'] = dict(out['stats'])
    out['digests'] = sorted(out['digests'])
    out['digest'] = base.digest(out['digests'])
    return out


OPEN_IDS: tuple = ()


def reproduces(ops: list[dict], klass: str) -> typing.Optional[dict]:
    try:
        res = runmod.fork_run(run_case, ops, OPEN_IDS, real_timeout=60, seed=1)
    except runmod.RunFailed:
        return None
    vio = res['violation']
    return vio if vio and vio['class'] == klass else None


def minimise(ops: list[dict], klass: str, step: int) -> list[dict]:
    ops = ops[:step + 1]
    return base.ddmin(ops, lambda sub: reproduces(sub, klass) is not None, max_tests=40)


def signature(vio: dict) -> str:
    detail = vio['detail']
    what = 'train' if '.train(' in detail else 'connect' if '<-' in detail else 'segment' if 'Segment(' in detail else \
        'other'
    return f'{vio["class"]}:{what}'


def match_finding(vio: dict, ops: list[dict], findings: list[dict]) -> typing.Optional[dict]:
    for finding in findings:
        sig = finding.get('signature', {})
        if sig.get('class') != vio['class']:
            continue
        if sig.get('op') and sig['op'] != signature(vio).split(':')[1]:
            continue
        if not all(s in vio['detail'] for s in sig.get('detail_contains', [])):
            continue
        if sig.get('detail_any') and not any(s in vio['detail'] for s in sig['detail_any']):
            continue
        if all(any(o['op'] == need for o in ops) for need in sig.get('needs_ops', [])):
            return finding
    return None


def main(argv: list[str]) -> int:
    import argparse  # pylint: disable=import-outside-toplevel

    parser = argparse.ArgumentParser(prog='check.py C11')
    parser.add_argument('--tier', default=None)
    parser.add_argument('--replay', default=None)
    parser.add_argument('--seeds', type=int, default=None)
    parser.add_argument('--budget', type=float, default=None)
    args = parser.parse_args(argv)
    global OPEN_IDS  # pylint: disable=global-statement
    OPEN_IDS = tuple(f['id'] for f in base.open_findings(PROP))
    if args.replay:
        doc = json.loads(pathlib.Path(args.replay).read_text())
        got = reproduces(doc['ops'], doc['violation']['class'])
        print(f'replay seed={doc["seed"]} expected={doc["violation"]["class"]} got={got and got["class"]}')
        if got:
            print(f'VIOLATION property={PROP} replay={args.replay}')
            print(f'  {got["detail"]}')
            return base.EXIT_VIOLATION
        return base.EXIT_OK
    tier = base.tier(args.tier)
    seed0 = base.base_seed()
    ncases = args.seeds or (30000 if tier == 'quick' else 3000000)
    budget = args.budget or (40 if tier == 'quick' else 1500)
    print(f'{PROP} seed={seed0} tier={tier} cases<={ncases} budget={budget}s')
    base.clean_replays(PROP)
    start = time.monotonic()
    batch = 25
    jobs = [[seed0 * 1000000 + i for i in range(j, min(j + batch, ncases))] for j in range(0, ncases, batch)]
    results, errors, exhausted = base.sweep(run_batch, jobs, budget, per_item_limit_s=600)
    base.emit_digests(results)
    findings = base.open_findings(PROP)
    stats: collections.Counter = collections.Counter()
    digests, samples = set(), []
    cases = 0
    raw = []
    inline_known: dict = {}
    for res in results:
        cases += res['cases']
        stats.update(res['stats'])
        digests.update(res['digests'])
        if res['harness']:
            errors.append(res['harness'])
        if res['sample'] and len(samples) < 3:
            samples.append(res['sample'])
        raw.extend(res['violations'])
        for hit in res['known_hits']:
            inline_known.setdefault(hit['id'], (hit['seed'], hit))
    # group by signature; minimise the first of each group, then decide known vs new on the minimised case
    groups: dict[str, list] = collections.defaultdict(list)
    for vio in raw:
        groups[signature(vio)].append(vio)
    known, reported = {}, []
    counts: collections.Counter = collections.Counter()
    for sig, items in sorted(groups.items()):
        fresh = 0
        for vio in items:
            finding = match_finding(vio, vio['ops'], findings)  # every single violation is matched, not a sample
            if finding:
                counts[finding['id']] += 1
                known.setdefault(finding['id'], (vio['seed'], vio, 0))
                continue
            if fresh:
                continue  # one report per signature group
            ops = minimise(vio['ops'], vio['class'], vio['step'])
            got = reproduces(ops, vio['class'])
            if not got:
                ops, got = vio['ops'], reproduces(vio['ops'], vio['class'])
            if not got:
                errors.append(f'seed {vio["seed"]}: violation {vio["class"]} did not reproduce in a fresh process')
                continue
            finding = match_finding(got, ops, findings)  # the minimised case may reduce to a listed finding
            if finding:
                counts[finding['id']] += 1
                known.setdefault(finding['id'], (vio['seed'], got, 0))
                continue
            fresh += 1
            reported.append((vio['seed'], got, ops))
    for fid, (seed, hit) in inline_known.items():
        counts[fid] += stats.get(f'resynced:{fid}', 0)
        known.setdefault(fid, (seed, hit, 0))
    known = {k: (s, v, counts[k]) for k, (s, v, _) in known.items()}
    for fid, (seed, vio, count) in sorted(known.items()):
        print(f'KNOWN-FINDING: property={PROP} {fid}: seed {seed}: {vio["detail"][:240]} [{count} cases in this group]')
    nviol = 0
    for seed, vio, ops in reported:
        path = base.write_replay(PROP, f'{seed}-{nviol}', {
            'property': PROP, 'seed': seed, 'tier': tier, 'engine': 'A-lifetimes', 'ops': ops, 'schedule': None,
            'violation': {'class': vio['class'], 'detail': vio['detail']}})
        print(f'VIOLATION property={PROP} replay={path}')
        print(f'  class={vio["class"]}: {vio["detail"][:400]} ({len(ops)} ops)')
        nviol += 1
    wall = time.monotonic() - start
    coverage = {
        'evaluations': cases,
        'distinct_nontrivial': len(digests),
        'rule': 'one evaluation = one seeded sequence of 6-30 construction calls (create worker/future/fork, connect '
                'via subscribe or publish, train, trace a Segment, copy, compose) mixed with lifetime events (keep the '
                'next caught TopologyError alive, release a kept one, gc.collect) run against the real graph layer in a '
                'fresh process with gc disabled, compared after every step with an abstract edge-set model; distinct = '
                'distinct final model graphs (digest of raw edges + nodes); non-trivial = at least two nodes',
        'samples': samples or [{'note': 'no short sample in this run'}],
        'cases_per_hour': round(cases / wall * 3600) if wall else 0,
        'fault_kinds_fired': {k[6:]: v for k, v in stats.items() if k.startswith('fault:')},
        'ops_executed': {k[3:]: v for k, v in stats.items() if k.startswith('op:')},
        'reach_probes': {'nodes_that_died_at_a_collection': stats.get('node-deaths', 0),
                         'refused_calls_retried': stats.get('retries', 0),
                         'copies_checked_for_structure': stats.get('copy-structure-checked', 0),
                         'extend_connection_refused': stats.get('extend:connection-refused', 0),
                         'extend_joint_trace_refused': stats.get('extend:joint-trace-refused', 0),
                         'extend_joint_segment_made': stats.get('extend:joint-segment', 0)},
        'verdicts': {k[8:]: v for k, v in stats.items() if k.startswith('verdict:')},
        'violating_cases_by_signature': {k: len(v) for k, v in groups.items()},
        'real_components': ['flow._graph.port/atomic/span', 'flow._suite.clean/assembly (Trunk, Composition, Validator)'],
        'stubbed_components': ['nothing is stubbed; gc is disabled and the harness owns all references so that '
                               'finaliser timing is a seeded event'],
        'sweep_completed': exhausted, 'harness_errors': len(errors),
    }
    base.write_evidence(PROP, tier, seed0, 'exploration', coverage, wall, nviol, [
        'the abstract model treats Future nodes as transparent and lifetime events as no-ops',
        'loops made of Future nodes only are not generated (they recurse without bound in the current code and are '
        'not among the invariants the property lists)',
        'Segment verdicts that depend on subscription order inside Node.__eq__ are skipped (counted as unknown)'])
    print(f'{PROP}: cases={cases} distinct_graphs={len(digests)} violations={nviol} known={len(known)} '
          f'harness_errors={len(errors)} wall={wall:.1f}s  groups={ {k: len(v) for k, v in groups.items()} }')
    for err in errors[:5]:
        print('HARNESS-ERROR:', err[:600], file=sys.stderr)
    if nviol:
        return base.EXIT_VIOLATION
    return base.EXIT_HARNESS if errors else base.EXIT_OK
