"""C06 (history half) - feed reads return what the statement denotes over the feed's *own* storage
*now*, whatever was read before, by whichever feed, in this or an earlier process (Engine B).

Statement semantics (parser output vs a reference evaluator over all statements x data) is a pure
function of its input and is NOT decided here; statements only vary as workload. What is decided is
independence from history: the result cache (memory + $FORML_HOME/.cache/alchemy, keyed by SQL
text), the lazy feed's process-global DuckDB registrations and what survives a restart or a process
death inside the cache write. Histories: read via feed f / mutate storage / switch feed / restart
keeping the home directory / die during a cache write. Oracle: the rows equal a reference evaluation
of the statement over the storage content at that instant (cross-checked against a pristine
process). The cache is deliberate design, so its exact behaviour is replayed by a second, explicitly
labelled reference: a read that is stale exactly as that cache model predicts is a KNOWN-FINDING; a
read that is neither fresh nor the modelled stale value is a VIOLATION.
"""
import collections
import copy
import json
import os
import pathlib
import random
import sys
import time
import typing

from crashbox import box as boxmod
from vlib import base
from workloads import feeds

PROP = 'C06'
OPTABLE = 'checks.c06_ops'
STORAGES = {'sqlA': 'sql', 'sqlA2': 'sql2', 'sqlB': 'sql', 'csvA': 'csv', 'csvB': 'csv', 'inlA': 'inline', 'inlB': 'inline'}
TORN = '<torn cache file>'


def gen_content(rng: random.Random) -> dict:
    n = rng.randint(2, 5)
    trows = [[i + 1, rng.randint(-2, 9), rng.choice(['x', 'y', 'z'])] for i in range(n)]
    urows = [[rng.randint(1, n + 1), rng.randint(10, 99)] for _ in range(rng.randint(1, 3))]
    return {'T': trows, 'U': urows}


def gen_history(rng: random.Random) -> dict:
    used = rng.sample(sorted(STORAGES), rng.choice([1, 2, 2, 3]))
    contents = {s: gen_content(rng) for s in used}
    sids = rng.sample(feeds.STATEMENTS, rng.randint(1, 4))
    ops = []
    outage = [s for s in used if STORAGES[s] != 'inline']
    if outage and rng.random() < 0.2:  # swarm: an outage of the storage in the middle of a process lifetime
        storage, sid = rng.choice(outage), rng.choice(sids)
        if rng.random() < 0.5:
            ops.append({'op': 'read', 'storage': storage, 'sid': rng.choice(sids)})
        ops += [{'op': 'mutate', 'storage': storage, 'how': 'drop', 'arg': 0}, {'op': 'read', 'storage': storage, 'sid': sid},
                {'op': 'mutate', 'storage': storage, 'how': 'restore', 'arg': 0},
                {'op': 'read', 'storage': storage, 'sid': sid}]
    for _ in range(rng.randint(3, 12)):
        kind = rng.choices(['read', 'mutate', 'restart', 'crash-read', 'read2'], [8, 3, 1.5, 0.7, 1.2])[0]
        sqls = [s for s in used if STORAGES[s].startswith('sql')] or used
        if kind == 'read2' and len(sids) < 2:
            kind = 'read'
        storage = rng.choice(used)
        if kind == 'read2':
            sa, sb = rng.sample(sids, 2)
            only_sql = [s for s in used if STORAGES[s].startswith('sql')]
            if rng.random() < 0.4 or not only_sql:
                # two readers of ONE feed (any kind: no cross-feed ambiguity for the cache model). Two DIFFERENT lazy
                # (csv / inline) feeds read at once is the listed finding lazy-backend-registration-is-process-global in
                # a form the cache model can not predict row by row (whose view a half-way query sees) - not generated
                same = rng.choice(used)
                pair = (same, same)
            else:
                pair = (rng.choice(only_sql), rng.choice(only_sql))
            ops.append({'op': 'read2', 'a': {'storage': pair[0], 'sid': sa}, 'b': {'storage': pair[1], 'sid': sb},
                        'schedule': [rng.choice([0, 0, 0, 1]) for _ in range(rng.choice([12, 60, 200]))]})
        elif kind == 'read':
            ops.append({'op': 'read', 'storage': storage, 'sid': rng.choice(sids)})
        elif kind == 'crash-read':
            ops.append({'op': 'read', 'storage': storage, 'sid': rng.choice(sids), 'crash': round(rng.random(), 4)})
        elif kind == 'restart':
            ops.append({'op': 'restart'})
        else:
            ops.append({'op': 'mutate', 'storage': storage, 'how': rng.choice(['insert', 'delete', 'update', 'insert', 'update', 'drop', 'restore']),
                        'arg': rng.randint(0, 99)})
    for op in ops:  # nested set operands only where the engine takes them
        for read in ([op] if op['op'] == 'read' else [op['a'], op['b']] if op['op'] == 'read2' else []):
            if read['sid'] == 'setnest' and STORAGES[read['storage']].startswith(feeds.NESTED_SETS_UNSUPPORTED):
                read['sid'] = 'diff'
    return {'contents': contents, 'ops': ops}


def family(storage: str) -> str:
    """Feeds whose statements compile to the same SQL text (same physical table names) share cache keys."""
    return STORAGES[storage] if STORAGES[storage].startswith('sql') else 'mono'


class Run:
    """Interpreter of one history."""

    def __init__(self, seed: int, history: dict, pristine_p: float = 0.25):
        self.seed = seed
        self.history = history
        self.box = boxmod.Box(OPTABLE, seed, prefix='c06-')
        self.home = os.path.join(self.box.root, 'home')
        self.data = os.path.join(self.box.base, 'data')
        os.makedirs(self.home)
        os.makedirs(self.data)
        self.contents = copy.deepcopy(history['contents'])
        self.dropped: set = set()
        self.stats: collections.Counter = collections.Counter()
        for storage in self.contents:
            self.flush(storage)
        self.child: typing.Optional[boxmod.Child] = None
        self.nchild = 0
        # the cache model (by-design behaviour replayed exactly)
        self.mem: dict = {}  # per incarnation: key -> (rows, origin storage, content version)
        self.disk: dict = {}  # per home directory
        self.lazy: dict = {}  # per incarnation: table -> (rows snapshot, storage, version)
        self.version: collections.Counter = collections.Counter()
        self.known: dict[str, str] = {}
        self.findings = {f['id'] for f in base.open_findings(PROP)}
        self.events: list = []
        self.trace: list = []
        self.rng = random.Random(seed ^ 0xC06)
        self.pristine_p = pristine_p

    def close(self):
        if self.child:
            self.child.close()
        self.box.destroy()

    def location(self, storage: str) -> str:
        if STORAGES[storage].startswith('sql'):
            return os.path.join(self.data, storage[:4] + '.db')  # sqlA and sqlA2 live in the same database file
        return os.path.join(self.data, storage)

    def flush(self, storage: str) -> None:
        kind = STORAGES[storage]
        if storage in self.dropped:  # the storage is unavailable: no tables / no files
            if kind.startswith('sql'):
                feeds.write_sqlite(self.location(storage), {'T': [], 'U': []}, kind[3:], drop_only=True)
            elif kind == 'csv':
                for name in ('T', 'U'):
                    path = f'{self.location(storage)}_{name}.csv'
                    if os.path.exists(path):
                        os.unlink(path)
            return
        rows = {k: [tuple(r) for r in v] for k, v in self.contents[storage].items()}
        if kind.startswith('sql'):
            self.nflush = getattr(self, 'nflush', 0) + 1
            aside = random.Random(self.seed * 131 + self.nflush).random() < 0.4
            self.stats['storage-republished-by-rename'] += aside
            feeds.write_sqlite(self.location(storage), rows, kind[3:], aside=aside)
        elif kind == 'csv':
            feeds.write_csv(self.location(storage), rows)

    def incarnation(self) -> boxmod.Child:
        if self.child is None or not self.child.alive:
            self.nchild += 1
            self.child = boxmod.Child(self.box.root, OPTABLE, self.seed * 977 + self.nchild, env={'C06_HOME': self.home})
            self.mem, self.lazy = {}, {}
            self.stats['incarnations'] += 1
        return self.child

    def args(self, storage: str, sid: str) -> dict:
        return {'storage': storage, 'kind': STORAGES[storage], 'location': self.location(storage), 'sid': sid,
                'content': self.contents[storage] if STORAGES[storage] == 'inline' else None}

    # -- the two references -----------------------------------------------------------------------
    def truth(self, storage: str, sid: str):
        if storage in self.dropped:
            return 'ERROR'
        return feeds.evaluate(sid, self.contents[storage])

    def modelled(self, storage: str, sid: str, commit: bool) -> tuple:
        """What the by-design cache returns: (rows | TORN, layer, origin storage, origin version)."""
        key = (family(storage), sid)
        if key in self.mem:
            return (*self.mem[key], 'memory')
        if key in self.disk:
            entry = self.disk[key]
            if commit and entry[0] != TORN:
                self.mem[key] = entry
            return (*entry, 'disk')
        lazy = dict(self.lazy)
        if family(storage) == 'mono':
            view = {}
            for table in feeds.tables(sid):
                if ('registered', STORAGES[storage], table) not in lazy and storage in self.dropped:
                    return ('ERROR', storage, self.version[storage], 'storage')
                # origins compare equal per (origin class, schema): the first CSV (or inline) feed of a process wins
                # among its kind, but a registration by the other kind replaces the shared DuckDB view of that name
                token = ('registered', STORAGES[storage], table)
                if token not in lazy:
                    lazy[token] = True
                    lazy[table] = (copy.deepcopy(self.contents[storage][table]), storage, self.version[storage])
                view[table] = lazy[table][0]
            view.setdefault('U', [])
            rows = feeds.evaluate(sid, view)
            origin = sorted({lazy[t][1] for t in feeds.tables(sid)})
            stale = any(lazy[t][1] != storage or lazy[t][2] != self.version[storage] for t in feeds.tables(sid))
            entry = (rows, '+'.join(origin), -1 if stale else self.version[storage])
            layer = 'lazy-registration' if stale else 'storage'
        else:
            entry = (self.truth(storage, sid), storage, self.version[storage])
            layer = 'storage'
            if entry[0] == 'ERROR':
                return (*entry, layer)
        if commit:
            self.lazy = lazy
            self.mem[key] = entry
            self.disk[key] = entry
        return (*entry, layer)

    # -- steps -------------------------------------------------------------------------------
    def note_known(self, fid: str, detail: str) -> None:
        if fid not in self.findings:
            raise base.Violation('unlisted-' + fid, detail)
        self.known.setdefault(fid, detail)
        self.stats[f'known:{fid}'] += 1

    def step(self, idx: int, op: dict) -> None:
        self.trace.append(op)
        kind = op['op']
        if kind == 'restart':
            if self.child:
                self.child.close()
                self.child = None
            self.stats['restarts'] += 1
            return
        storage = op.get('storage')
        if kind == 'mutate':
            trows = self.contents[storage]['T']
            if op['how'] in ('drop', 'restore'):
                if STORAGES[storage] == 'inline':
                    return
                (self.dropped.add if op['how'] == 'drop' else self.dropped.discard)(storage)
                self.version[storage] += 1
                self.flush(storage)
                self.stats['fault:storage-unavailable' if op['how'] == 'drop' else 'storage-restored'] += 1
                return
            if op['how'] == 'insert':
                trows.append([max((r[0] for r in trows), default=0) + 1, op['arg'] % 10, 'xyz'[op['arg'] % 3]])
            elif op['how'] == 'delete' and len(trows) > 1:
                trows.pop(op['arg'] % len(trows))
            else:
                trows[op['arg'] % len(trows)][1] = (trows[op['arg'] % len(trows)][1] + 1 + op['arg']) % 10
            self.version[storage] += 1
            self.flush(storage)
            self.stats['mutations'] += 1
            return
        if kind == 'read2':
            pair = [op['a'], op['b']]
            if any(p['storage'] not in self.contents for p in pair):
                return
            child = self.incarnation()
            res = child.call('read2', {'reads': [self.args(p['storage'], p['sid']) for p in pair],
                                       'schedule': op['schedule']})
            if not res.ok:
                raise base.HarnessError(f'op{idx} read2: {res.value}')
            self.stats['fault:interleaved-readers'] += 1
            self.stats['reader-switches'] += res.value['switches']
            for p, (status, value) in zip(pair, res.value['results']):
                self.stats['reads'] += 1
                where = (f'op{idx} read {p["sid"]} via {p["storage"]} concurrently with another reader of the same '
                         f'process (incarnation {self.nchild}, {res.value["switches"]} switches)')
                self.judge(where, p['storage'], p['sid'], status == 'ok', value, self.truth(p['storage'], p['sid']))
            return
        sid = op['sid']
        args = self.args(storage, sid)
        where = f'op{idx} read {sid} via {storage} (incarnation {self.nchild + (0 if self.child and self.child.alive else 1)})'
        truth = self.truth(storage, sid)
        if truth != 'ERROR' and self.rng.random() < self.pristine_p:
            # cross-check the reference evaluator against a pristine process (fresh home, fresh feed)
            home = os.path.join(self.box.base, f'pristine{idx}')
            os.makedirs(home)
            with boxmod.Child(self.box.root, OPTABLE, self.seed * 31 + idx, env={'C06_HOME': home}) as child:
                res = child.call('read', {**args, 'reuse': False})
            self.stats['pristine_reads'] += 1
            if not res.ok or res.value != truth:
                raise base.Violation('pristine-differs-from-reference',
                                     f'{where}: a pristine process reads {res.value}, the reference evaluation of the '
                                     f'statement over the storage says {truth}')
        crash = None
        key = (family(storage), sid)
        if op.get('crash') is not None and key not in self.mem and key not in self.disk:
            # the read will write the cache file: let the process die inside that write (dry run on a snapshot
            # first to learn the numbered mutation points of this read in a fresh process)
            if self.child:
                self.child.close()
                self.child = None
            snap = self.box.snapshot()
            with boxmod.Child(self.box.root, OPTABLE, self.seed * 53 + idx, env={'C06_HOME': self.home}) as dry:
                probe = dry.call('read', args)
            self.box.restore(snap)
            self.box.drop(snap)
            writes = [n for n, what, _, _ in probe.oplog if what in ('create', 'truncate', 'write')]
            if probe.ok and writes:
                choices = writes + [len(probe.oplog) + 1]
                crash = {'at': choices[min(int(op['crash'] * len(choices)), len(choices) - 1)],
                         'cut': 7 if op['crash'] * 10 % 1 > 0.5 else None}
        child = self.incarnation()
        predicted = self.modelled(storage, sid, commit=False)
        res = child.call('read', args, crash)
        self.stats['reads'] += 1
        if res.status == 'crashed':
            self.child = None
            self.stats['fault:death-in-cache-write'] += 1
            what = res.oplog[-1][1]
            if what in ('create', 'truncate', 'mkdir'):
                pass  # nothing reached the disk
            elif os.path.basename(str(res.oplog[-1][2])).startswith('.') or what == 'replace':
                pass  # the file is written aside and renamed into place: nothing under the final name yet
            elif what == 'write':
                self.disk[key] = (TORN, storage, self.version[storage])
                self.stats['torn-cache-files'] += 1
            else:  # died after the complete write, before returning
                rows, origin, ver, _ = self.modelled(storage, sid, commit=False)
                self.disk[key] = (rows, origin, ver)
            self.mem, self.lazy = {}, {}
            return
        self.judge(where, storage, sid, res.ok, res.value, truth)

    def judge(self, where: str, storage: str, sid: str, ok: bool, value, truth) -> None:
        rows, origin, ver, layer = self.modelled(storage, sid, commit=ok)
        self.events.append([sid, storage, layer, ok])
        if not ok:
            if rows == 'ERROR':
                self.stats['expected-errors'] += 1  # the storage can not answer: the read fails, nothing is cached
                return
            if rows == TORN:
                self.note_known('torn-cache-file-poisons-statement', f'{where}: fails with {value[:120]} - the cache '
                                                                     f'file was torn by an earlier process death')
                return
            raise base.Violation('read-failed', f'{where}: {value[:300]} (reference: {truth})')
        got = value
        if rows == 'ERROR':
            raise base.Violation('read-succeeded-on-unavailable-storage', f'{where}: returned {got} although the storage '
                                                                          f'is unavailable and nothing was cached')
        if got == truth:
            self.stats['fresh-reads'] += 1
            if rows != TORN and rows != truth:
                raise base.Violation('cache-model-mismatch', f'{where}: fresh rows although the cache model predicts the '
                                                             f'stale {rows} from {layer}')
            return
        if rows != TORN and got == rows:
            if layer == 'lazy-registration':
                fid = 'lazy-backend-registration-is-process-global'
            elif origin != storage:
                fid = 'result-cache-leaks-across-feeds' if layer == 'memory' else 'result-cache-leaks-across-feeds-after-restart'
            else:
                fid = 'result-cache-stale-after-mutation' if layer == 'memory' else 'result-cache-stale-after-restart'
            self.note_known(fid, f'{where}: returned {got} (served from {layer}, produced via {origin}); the storage '
                                 f'now holds {truth}')
            return
        raise base.Violation('read-neither-fresh-nor-modelled-cache',
                             f'{where}: returned {got}; the storage holds {truth}; the cache model ({layer}, via {origin}) '
                             f'predicts {rows}')

    def run(self) -> None:
        for idx, op in enumerate(self.history['ops']):
            self.step(idx, op)


def execute(seed: int, history: dict) -> dict:
    run = Run(seed, history)
    out = {'seed': seed, 'violation': None, 'harness': None}
    try:
        try:
            run.run()
        except base.Violation as err:
            out['violation'] = {**err.as_dict(), 'history': {'contents': history['contents'], 'ops': list(run.trace)}}
        except base.HarnessError as err:
            out['harness'] = str(err)
        out['stats'] = dict(run.stats)
        out['known'] = dict(run.known)
        out['digest'] = base.digest(run.events)
    finally:
        run.close()
    return out


def run_seed(seed: int) -> dict:
    history = gen_history(random.Random(seed))
    out = execute(seed, history)
    if seed % 40 == 0:
        out['sample'] = {'seed': seed, **history}
    return out


def reproduces(seed: int, history: dict, klass: str) -> typing.Optional[dict]:
    res = execute(seed, history)
    vio = res.get('violation')
    return vio if vio and vio['class'] == klass else None


def minimise(seed: int, history: dict, klass: str) -> dict:
    ops = base.ddmin(history['ops'], lambda sub: reproduces(seed, {**history, 'ops': sub}, klass) is not None,
                     max_tests=40)
    cand = {**history, 'ops': ops}
    return cand if reproduces(seed, cand, klass) else history


def run_seed_isolated(job) -> dict:
    """One history = one process tree grown from the worker's frozen zygote image: what the worker ran before (and so
    the object addresses its children would inherit) has no say in this history."""
    from detsim import runner as runmod  # pylint: disable=import-outside-toplevel

    try:
        return runmod.fork_run(run_seed, job, real_timeout=560)
    except runmod.RunFailed as err:
        raise base.HarnessError(str(err)[:1500]) from None


def main(argv: list[str]) -> int:
    import argparse  # pylint: disable=import-outside-toplevel

    parser = argparse.ArgumentParser(prog='check.py C06')
    parser.add_argument('--tier', default=None)
    parser.add_argument('--replay', default=None)
    parser.add_argument('--seeds', type=int, default=None)
    parser.add_argument('--budget', type=float, default=None)
    args = parser.parse_args(argv)
    import logging  # pylint: disable=import-outside-toplevel

    logging.disable(logging.CRITICAL)
    import checks.c06_ops  # noqa: F401 pylint: disable=import-outside-toplevel,unused-import

    if args.replay:
        doc = json.loads(pathlib.Path(args.replay).read_text())
        got = reproduces(doc['seed'], doc['history'], doc['violation']['class'])
        print(f'replay seed={doc["seed"]} expected={doc["violation"]["class"]} got={got and got["class"]}')
        if got:
            print(f'VIOLATION property={PROP} replay={args.replay}')
            print(f'  {got["detail"]}')
            return base.EXIT_VIOLATION
        return base.EXIT_OK
    tier = base.tier(args.tier)
    seed0 = base.base_seed()
    nseeds = args.seeds or (2000 if tier == 'quick' else 40000)
    budget = args.budget or (40 if tier == 'quick' else 1500)
    print(f'{PROP} seed={seed0} tier={tier} seeds<={nseeds} budget={budget}s')
    base.clean_replays(PROP)
    start = time.monotonic()
    jobs = [seed0 * 10000 + i for i in range(nseeds)]
    results, errors, exhausted = base.sweep(run_seed_isolated, jobs, budget, per_item_limit_s=600)
    base.emit_digests(results)
    stats: collections.Counter = collections.Counter()
    digests, samples = set(), []
    known, reported = {}, {}
    for res in results:
        if res.get('harness'):
            errors.append(f'seed {res["seed"]}: {res["harness"]}')
            continue
        stats.update(res.get('stats', {}))
        digests.add(res['digest'])
        if res.get('sample') and len(samples) < 3:
            samples.append(res['sample'])
        for fid, detail in res.get('known', {}).items():
            known.setdefault(fid, (res['seed'], detail))
        if res['violation']:
            reported.setdefault(res['violation']['class'], (res['seed'], res['violation']))
    for fid, (seed, detail) in sorted(known.items()):
        print(f'KNOWN-FINDING: property={PROP} {fid}: seed {seed}: {detail[:260]} [{stats.get("known:" + fid, 0)} reads]')
    nviol = 0
    for klass, (seed, vio) in sorted(reported.items()):
        history = minimise(seed, vio['history'], klass)
        got = reproduces(seed, history, klass) or vio
        path = base.write_replay(PROP, f'{seed}-{nviol}', {
            'property': PROP, 'seed': seed, 'tier': tier, 'engine': 'B', 'history': history, 'ops': history['ops'],
            'schedule': None, 'violation': {'class': klass, 'detail': got['detail']}})
        print(f'VIOLATION property={PROP} replay={path}')
        print(f'  class={klass}: {got["detail"][:400]} ({len(history["ops"])} ops)')
        nviol += 1
    wall = time.monotonic() - start
    nruns = len([r for r in results if not r.get('harness')])
    coverage = {
        'evaluations': nruns,
        'distinct_nontrivial': len(digests),
        'rule': 'one evaluation = one seeded history of 3-12 reads / storage mutations / restarts / process deaths inside a '
                'cache write over 1-3 storages (two SQLite databases with equally named tables, two CSV directories, two '
                'inline datasets, all serving the same two schemas) executed by the real alchemy / monolite feeds in forked '
                'process incarnations sharing one ForML home directory; distinct = distinct (statement, storage, serving '
                'layer, outcome) sequences; non-trivial = at least one read was judged',
        'samples': samples,
        'reads_judged': stats.get('reads', 0), 'fresh_reads': stats.get('fresh-reads', 0),
        'pristine_cross_checks': stats.get('pristine_reads', 0),
        'known_finding_reads': {k[6:]: v for k, v in stats.items() if k.startswith('known:')},
        'fault_kinds_fired': {k[6:]: v for k, v in stats.items() if k.startswith('fault:')},
        'torn_cache_files': stats.get('torn-cache-files', 0),
        'interleaved_reader_pairs': stats.get('fault:interleaved-readers', 0), 'reader_switches': stats.get('reader-switches', 0),
        'mutations': stats.get('mutations', 0), 'restarts': stats.get('restarts', 0),
        'incarnations': stats.get('incarnations', 0),
        'runs_per_hour': round(nruns / wall * 3600) if wall else 0,
        'real_components': ['alchemy.Feed + Results cache', 'monolite.Feed / lazy.Feed (DuckDB backend, registrations)',
                            'reader/alchemy parser', 'io Reader._parse_statement cache', 'SQLite and DuckDB engines'],
        'stubbed_components': ['DataFrame.to_parquet routed through python file objects (so that the cache write has '
                               'crash points)', 'RESULTS re-created per incarnation over $C06_HOME (what a process start '
                               'with FORML_HOME does)'],
        'sweep_completed': exhausted, 'harness_errors': len(errors),
    }
    base.write_evidence(PROP, tier, seed0, 'exploration', coverage, wall, nviol, [
        'ONLY the history/independence half of C06 is decided; statement semantics over all statements x data is a pure '
        'function of its input and is not a simulation target (statements are a fixed family of 8 here)',
        'the result cache and the process-global lazy registrations are deliberate design: reads that are stale exactly '
        'as the cache model predicts are listed known findings, anything else is a violation'])
    print(f'{PROP}: histories={nruns} reads={stats.get("reads", 0)} fresh={stats.get("fresh-reads", 0)} violations={nviol} '
          f'known={len(known)} harness_errors={len(errors)} wall={wall:.1f}s')
    for err in errors[:5]:
        print('HARNESS-ERROR:', err[:600], file=sys.stderr)
    if nviol:
        return base.EXIT_VIOLATION
    return base.EXIT_HARNESS if errors else base.EXIT_OK
