"""C02 - every runner executes a compiled workflow with identical results (Engine A').

The schedule-dependent half is decided by simulation: Dask's real ``threaded.get`` /
``multiprocessing.get`` (and with them the real ``get_async`` state machine, the real ``_mkjob``
linking and - for ``processes`` - the real cloudpickle dumps/loads of every task and result) run on
a simulated pool + queue in which a PRNG decides which in-flight task completes next (1-4 workers).
``synchronous`` and the pyfunc expression have one schedule each and ride along as two more
configurations of the same differential harness (plain differential execution, reported as such).
Reference: an independent dependency-ordered interpreter of the symbol table.

Workloads: (W1) random single-head/single-tail apply-mode worker DAGs over symbolic multi-port
actors (fan-out at the source, unequal branch depths, multi-output getters, unused ports, actors
whose distinguishing parameter is not visible in their repr); (W2) train-mode tables of generated
pipelines (worker groups with trained + applied forks, loaders / dumpers / committer over a real
``asset.State`` on a per-backend copy of a real posix registry).
"""
import collections
import json
import logging
import os
import pathlib
import random
import shutil
import sys
import tempfile
import time
import typing

import dask
import dask.local

from forml import flow, runtime
from forml.io import asset
from forml.provider.registry.filesystem import posix
from forml.provider.runner import dask as daskrun
from forml.provider.runner import pyfunc

from detsim import runner as runmod
from vlib import base
from workloads import lifecycle as lc
from workloads import tables

PROP = 'C02'
BACKENDS = ['reference', 'dask-synchronous', 'dask-threads', 'dask-processes', 'pyfunc', 'pyfunc-repeated']
REAL_QUEUE = dask.local.Queue
W1_INSTANCE = object()  # W1 runs bare tables: the runner is only constructed, never asked for its instance


class RefRunner(runtime.Runner):
    """The reference interpreter packaged as a runner (so that W2 goes through the common driver)."""

    @classmethod
    def run(cls, symbols, **kwargs) -> None:
        tables.interpret(symbols)


def read_log(path: str) -> dict:
    out = {'exec': collections.Counter(), 'sink': [], 'lc': []}
    if os.path.exists(path):
        with open(path, encoding='utf-8') as handle:
            for line in handle:
                kind, _, text = line.rstrip('\n').partition('\t')
                if kind == 'exec':
                    out['exec'][text] += 1
                elif kind == 'sink':
                    out['sink'].append(text)
        os.unlink(path)
    out['exec'] = dict(out['exec'])
    return out


def run_backend(backend: str, symbols_factory: typing.Callable[[], typing.Any], rng: random.Random, nworkers: int,
                stats: dict) -> typing.Optional[str]:
    """Execute on one backend; -> None or the error text."""
    pool = None
    try:
        if backend == 'reference':
            tables.interpret(symbols_factory())
        elif backend == 'pyfunc':
            pyfunc.Runner.run(symbols_factory())
        elif backend == 'pyfunc-repeated':
            # the serving runner keeps ONE expression and calls it per request: a failing call in between (an actor
            # refusing its input somewhere inside the pipeline) must not change what the next call returns
            expression = pyfunc.Expression(symbols_factory())
            expression(None)
            victim = stats.get('poison')
            try:
                expression(('POISON', victim))
            except Exception:  # pylint: disable=broad-except
                stats['poisoned_calls'] = stats.get('poisoned_calls', 0) + 1
            tables._log('sink', '--- call after the failed one ---')  # pylint: disable=protected-access
            expression(None)
        else:
            # the runner is set up the way a platform does it (its constructor applies the runner's own defaults on top
            # of which the scheduler / pool seam is configured), then the table is run
            scheduler = backend.split('-', 1)[1]
            kwargs: dict = {'scheduler': scheduler}
            if scheduler != 'synchronous':
                pool = tables.SimPool(nworkers, rng, stats)
                tables.SimQueue.pool = pool
                dask.local.Queue = tables.SimQueue
                kwargs.update(pool=pool, num_workers=nworkers)
            daskrun.Runner(W1_INSTANCE, lc.Feed(), lc.Sink(), **kwargs).run(symbols_factory())
    except Exception as err:  # pylint: disable=broad-except
        return f'{type(err).__name__}: {err}'[:300]
    finally:
        dask.local.Queue = REAL_QUEUE
        tables.SimQueue.pool = None
        dask.config.set(pool=None, num_workers=None, scheduler='synchronous')
    return None


def case_w1(seed: int) -> dict:
    """One random apply-mode DAG on every backend (each backend gets a freshly built and compiled segment)."""
    logging.disable(logging.CRITICAL)
    rng = random.Random(seed)
    dag = tables.gen_dag(rng)
    nworkers = rng.randint(1, 4)
    logfile = os.path.join(tempfile.gettempdir(), f'c02-{os.getpid()}.log')
    os.environ['C02_LOG'] = logfile
    if os.path.exists(logfile):
        os.unlink(logfile)
    stats: dict = {'poison': rng.choice([n['name'] for n in dag['nodes'][1:]])}
    results = {}
    for backend in BACKENDS:
        factory = lambda: list(flow.compile(tables.build_segment(dag)))  # noqa: E731
        err = run_backend(backend, factory, random.Random(seed * 31 + len(backend)), nworkers, stats)
        obs = read_log(logfile)
        results[backend] = {'error': err, 'sink': obs['sink'], 'exec': obs['exec']}
    # the same table once more with an injected transient fault: one instruction raises the first time it is executed.
    # Direct evaluation fails and delivers nothing; so must every backend (none of them retries)
    victims = [n['name'] for n in dag['nodes'][:-1] if n['name'] != 'lam']
    if victims and seed % 3 == 0:
        victim = random.Random(seed ^ 0xFA).choice(victims)
        stats['transient_fault'] = victim
        os.environ['C02_FAULT'] = victim
        try:
            for backend in BACKENDS[:5]:
                factory = lambda: list(flow.compile(tables.build_segment(dag)))  # noqa: E731
                err = run_backend(backend, factory, random.Random(seed * 37 + len(backend)), nworkers, stats)
                obs = read_log(logfile)
                results[backend]['faulty'] = {'error': err, 'sink': obs['sink'], 'exec': obs['exec']}
        finally:
            del os.environ['C02_FAULT']
    return {'kind': 'w1', 'dag': dag, 'shape': tables.shape(dag), 'nworkers': nworkers, 'results': results,
            'stats': {k: v for k, v in stats.items() if k != 'trace'}, 'trace': stats.get('trace', '')}


def registry_dump(root: pathlib.Path) -> dict:
    registry = posix.Registry(root / 'registry', staging=root / 'staging')
    directory = asset.Directory(registry)
    out = {}
    for gen in directory.get('pa').get('1').list():
        generation = directory.get('pa').get('1').get(gen)
        tag = generation.tag
        out[int(gen)] = [generation.get(i).hex() for i in range(len(tag.states))]
    return out


def case_w2(seed: int) -> dict:
    """A generated pipeline: train twice (incremental) then apply, per backend on its own registry copy."""
    logging.disable(logging.CRITICAL)
    rng = random.Random(seed)
    spec = lc.gen_spec(rng)
    while not lc.spec_names(spec, ('S', 'R')):
        spec = lc.gen_spec(rng)
    nworkers = rng.randint(1, 4)
    base_dir = pathlib.Path(tempfile.mkdtemp(prefix='c02-w2-'))
    logfile = str(base_dir / 'lc.log')
    os.environ['LC_LOG'] = logfile
    os.environ['LC_HP'] = '1'
    stats: dict = {}
    results = {}
    try:
        template = base_dir / 'template'
        pkg = lc.write_project(template / 'src', 'pa', '1', spec)
        asset.Directory(posix.Registry(template / 'registry', staging=template / 'staging')).get('pa').put(pkg)
        modes = ('apply', 'train', 'train', 'apply')  # cold-start apply (nothing trained yet), two trainings, apply
        for backend in BACKENDS[:5]:
            root = base_dir / backend
            if backend == 'pyfunc':
                # pyfunc can not train: it applies (cold, then on the generations the reference run committed)
                shutil.copytree(template, base_dir / 'pyfunc-cold')
                shutil.copytree(base_dir / 'reference', root)
            else:
                shutil.copytree(template, root)
            pool = None
            err = None
            events = []
            try:
                for step, mode in enumerate(modes):
                    os.environ['LC_TOKEN'] = str(step + 1)
                    where = root
                    if backend == 'pyfunc':
                        if mode == 'train':
                            events.append(None)
                            continue
                        where = base_dir / 'pyfunc-cold' if step == 0 else root
                    registry = posix.Registry(where / 'registry', staging=where / 'staging')
                    instance = asset.Instance('pa', '1', None, asset.Directory(registry))
                    if backend == 'reference':
                        runner = RefRunner(instance, lc.Feed(), lc.Sink())
                    elif backend == 'pyfunc':
                        runner = pyfunc.Runner(instance, lc.Feed(), lc.Sink())
                    else:
                        scheduler = backend.split('-', 1)[1]
                        kwargs = {'scheduler': scheduler}
                        if scheduler != 'synchronous':
                            pool = tables.SimPool(nworkers, random.Random(seed * 17 + step), stats)
                            tables.SimQueue.pool = pool
                            dask.local.Queue = tables.SimQueue
                            kwargs.update(pool=pool, num_workers=nworkers)
                        runner = daskrun.Runner(instance, lc.Feed(), lc.Sink(), **kwargs)
                    getattr(runner, mode)()
                    lines = []
                    if os.path.exists(logfile):
                        with open(logfile, encoding='utf-8') as handle:
                            lines = sorted(set(handle.read().splitlines()))  # dask computes identical pure tasks once
                        os.unlink(logfile)
                    events.append(lines)
            except Exception as exc:  # pylint: disable=broad-except
                err = f'{type(exc).__name__}: {exc}'[:300]
            finally:
                dask.local.Queue = REAL_QUEUE
                tables.SimQueue.pool = None
                dask.config.set(pool=None, num_workers=None, scheduler='synchronous')
            results[backend] = {'error': err, 'events': events,
                                'registry': None if err or backend == 'pyfunc' else registry_dump(root)}
    finally:
        shutil.rmtree(base_dir, ignore_errors=True)
    return {'kind': 'w2', 'spec': spec, 'pipeline': lc.render(spec), 'nworkers': nworkers, 'results': results,
            'stats': {k: v for k, v in stats.items() if k != 'trace'}, 'trace': stats.get('trace', '')}


def judge(case: dict) -> list[dict]:
    out = []
    ref = case['results']['reference']
    if ref['error']:
        return [{'class': 'reference-failed', 'backend': 'reference', 'detail': ref['error']}]
    for backend, res in case['results'].items():
        if backend == 'reference':
            continue
        if res['error']:
            out.append({'class': 'backend-crashed', 'backend': backend,
                        'detail': f'{backend} fails on a table the reference interpreter (and other backends) run: '
                                  f'{res["error"]}'})
            continue
        if backend == 'pyfunc-repeated':
            marker = '--- call after the failed one ---'
            after = res['sink'][res['sink'].index(marker) + 1:] if marker in res['sink'] else None
            if after != ref['sink']:
                out.append({'class': 'failed-call-leaks-into-next-call', 'backend': backend,
                            'detail': f'one pyfunc expression, three calls (ok, failing inside the pipeline, ok): the third '
                                      f'call delivered {str(after)[:160]} - reference {str(ref["sink"])[:160]}'})
            continue
        if case['kind'] == 'w1' and 'faulty' in res and 'faulty' in ref and ref['faulty']['error']:
            mine = res['faulty']
            if mine['error'] is None or mine['sink']:
                out.append({'class': 'fault-swallowed', 'backend': backend,
                            'detail': f'{backend}: instruction {case["stats"].get("transient_fault")} raised on its first '
                                      f'execution - direct evaluation fails ({ref["faulty"]["error"][:80]}) and delivers '
                                      f'nothing; this backend {"completed" if mine["error"] is None else "failed"} and '
                                      f'delivered {str(mine["sink"])[:160]} (executions {mine["exec"]})'})
                continue
        if case['kind'] == 'w1':
            if res['sink'] != ref['sink']:
                out.append({'class': 'different-sink-output', 'backend': backend,
                            'detail': f'{backend} delivered {str(res["sink"])[:200]} - reference {str(ref["sink"])[:200]}'})
            elif res['exec'] != (tables.merged_counts(case['dag']) if backend.startswith('dask') else ref['exec']):
                out.append({'class': 'task-not-run-exactly-once', 'backend': backend,
                            'detail': f'{backend} executed {res["exec"]} - reference {ref["exec"]}'})
        else:
            mine_events = [e if e is not None else r for e, r in zip(res['events'], ref['events'])]
            if mine_events != ref['events']:
                res = {**res, 'events': mine_events}
                diff = next((i for i, (a, b) in enumerate(zip(res['events'], ref['events'])) if a != b), 0)
                mine = res['events'][diff] if diff < len(res['events']) else []
                theirs = ref['events'][diff] if diff < len(ref['events']) else []
                out.append({'class': 'different-actor-io', 'backend': backend,
                            'detail': f'{backend}: what the actors saw differs from the reference in step {diff}: only '
                                      f'here {[e for e in mine if e not in theirs][:3]} only reference '
                                      f'{[e for e in theirs if e not in mine][:3]}'})
            elif res['registry'] is not None and res['registry'] != ref['registry']:
                out.append({'class': 'different-persisted-states', 'backend': backend,
                            'detail': f'{backend}: registry content {str(res["registry"])[:160]} - reference '
                                      f'{str(ref["registry"])[:160]}'})
    return out


def run_seed(seed: int) -> dict:
    kind = 'w2' if seed % 4 == 3 else 'w1'
    out = {'seed': seed, 'kind': kind, 'violations': [], 'harness': None}
    try:
        case = runmod.fork_run(case_w2 if kind == 'w2' else case_w1, seed, real_timeout=180, seed=seed)
    except runmod.RunFailed as err:
        out['harness'] = str(err)[:1200]
        return out
    out['violations'] = judge(case)
    for vio in out['violations']:
        vio['case'] = {'dag': case.get('dag'), 'spec': case.get('spec'), 'shape': case.get('shape')}
    out['digest'] = base.digest([case.get('dag') or case.get('spec'), case['nworkers'], case['trace']])
    out['schedule'] = base.digest(case['trace'])
    out['stats'] = case['stats']
    out['shape'] = case.get('shape')
    if seed % 60 == 0:
        out['sample'] = {'seed': seed, 'kind': kind, 'dag': case.get('dag'), 'pipeline': case.get('pipeline'),
                         'nworkers': case['nworkers'], 'completion_choices': case['trace'][:60]}
    return out


def pyfunc_site(vio: dict) -> str:
    """Which of the two known pyfunc shapes (if any) a crash belongs to."""
    shape = (vio.get('case') or {}).get('shape') or {}
    detail = vio['detail']
    if vio['backend'] == 'pyfunc' and 'pop from an empty deque' in detail:
        return 'replica-order'
    if vio['backend'] == 'pyfunc' and shape.get('head_consumers', 0) > 1 and 'IndexError' in detail:
        return 'head-fanout'
    return ''


def match_finding(vio: dict, findings: list[dict]) -> typing.Optional[dict]:
    for finding in findings:
        sig = finding.get('signature', {})
        if sig.get('class') != vio['class'] or sig.get('backend') != vio['backend']:
            continue
        if sig.get('site') and sig['site'] != pyfunc_site(vio):
            continue
        return finding
    return None


def reproduce(seed: int, klass: str, backend: str) -> typing.Optional[dict]:
    res = run_seed(seed)
    return next((v for v in res['violations'] if v['class'] == klass and v['backend'] == backend), None)


def main(argv: list[str]) -> int:
    import argparse  # pylint: disable=import-outside-toplevel

    parser = argparse.ArgumentParser(prog='check.py C02')
    parser.add_argument('--tier', default=None)
    parser.add_argument('--replay', default=None)
    parser.add_argument('--seeds', type=int, default=None)
    parser.add_argument('--budget', type=float, default=None)
    args = parser.parse_args(argv)
    logging.disable(logging.CRITICAL)
    if args.replay:
        doc = json.loads(pathlib.Path(args.replay).read_text())
        got = reproduce(doc['seed'], doc['violation']['class'], doc['violation']['backend'])
        print(f'replay seed={doc["seed"]} expected={doc["violation"]["class"]} got={got and got["class"]}')
        if got:
            print(f'VIOLATION property={PROP} replay={args.replay}')
            print(f'  {got["detail"]}')
            return base.EXIT_VIOLATION
        return base.EXIT_OK
    tier = base.tier(args.tier)
    seed0 = base.base_seed()
    nseeds = args.seeds or (3000 if tier == 'quick' else 300000)
    budget = args.budget or (40 if tier == 'quick' else 1500)
    print(f'{PROP} seed={seed0} tier={tier} seeds<={nseeds} budget={budget}s')
    base.clean_replays(PROP)
    start = time.monotonic()
    jobs = [seed0 * 100000 + i for i in range(nseeds)]
    results, errors, exhausted = base.sweep(run_seed, jobs, budget, per_item_limit_s=400)
    base.emit_digests(results)
    findings = base.open_findings(PROP)
    digests, schedules, samples = set(), set(), []
    stats: collections.Counter = collections.Counter()
    shapes: collections.Counter = collections.Counter()
    known, reported = {}, {}
    counts: collections.Counter = collections.Counter()
    ncases = collections.Counter()
    for res in results:
        if res.get('harness'):
            errors.append(f'seed {res["seed"]}: {res["harness"]}')
            continue
        ncases[res['kind']] += 1
        digests.add(res['digest'])
        schedules.add(res['schedule'])
        stats['choices'] += res['stats'].get('choices', 0)
        stats['transient'] += 1 if res['stats'].get('transient_fault') else 0
        stats['poisoned'] += res['stats'].get('poisoned_calls', 0)
        stats['max_in_flight'] = max(stats['max_in_flight'], res['stats'].get('max_in_flight', 0))
        shape = res.get('shape') or {}
        shapes['head fan-out'] += shape.get('head_consumers', 0) > 1
        shapes['multi-output nodes'] += shape.get('multi_output', 0) > 0
        shapes['same-repr functions'] += shape.get('same_repr_functions', 0) > 1
        if res.get('sample') and len(samples) < 3:
            samples.append(res['sample'])
        for vio in res['violations']:
            finding = match_finding(vio, findings)
            if finding:
                counts[finding['id']] += 1
                known.setdefault(finding['id'], (res['seed'], vio))
            else:
                reported.setdefault((vio['class'], vio['backend']), (res['seed'], vio))
    for fid, (seed, vio) in sorted(known.items()):
        print(f'KNOWN-FINDING: property={PROP} {fid}: seed {seed}: {vio["detail"][:220]} [{counts[fid]} tables]')
    nviol = 0
    for (klass, backend), (seed, vio) in sorted(reported.items()):
        # smallest failing table among the neighbours: re-scan a window of seeds for the smallest reproducing case
        best = (seed, vio)
        for res in results:
            for other in res.get('violations', []):
                if (other['class'], other['backend']) == (klass, backend) and match_finding(other, findings) is None:
                    size = len(((other.get('case') or {}).get('dag') or {}).get('nodes', [])) or 99
                    bsize = len(((best[1].get('case') or {}).get('dag') or {}).get('nodes', [])) or 99
                    if size < bsize:
                        best = (res['seed'], other)
        seed, vio = best
        path = base.write_replay(PROP, f'{seed}-{nviol}', {
            'property': PROP, 'seed': seed, 'tier': tier, 'engine': "A'", 'ops': vio.get('case'),
            'schedule': 'completion order is re-derived from the seed (PRNG picks among in-flight tasks)',
            'violation': {'class': klass, 'backend': backend, 'detail': vio['detail']}})
        print(f'VIOLATION property={PROP} replay={path}')
        print(f'  class={klass} backend={backend}: {vio["detail"][:300]}')
        print(f'  case={json.dumps(vio.get("case"))[:400]}')
        nviol += 1
    wall = time.monotonic() - start
    nruns = ncases['w1'] + ncases['w2']
    coverage = {
        'evaluations': nruns,
        'distinct_nontrivial': len(digests),
        'rule': 'one evaluation = one generated table executed on every backend (reference interpreter, dask synchronous, '
                'dask threads and dask processes on the simulated pool/queue with 1-4 workers and a seeded completion order, '
                'pyfunc for apply-mode tables); distinct = distinct (table, worker count, completion-choice trace); '
                'non-trivial = the table has >= 2 instructions',
        'samples': samples,
        'apply_mode_dags': ncases['w1'], 'train_mode_pipelines': ncases['w2'],
        'distinct_completion_orders': len(schedules), 'scheduling_choices_made': stats['choices'],
        'max_tasks_in_flight': stats['max_in_flight'],
        'shapes_reached': dict(shapes),
        'runs_per_hour': round(nruns / wall * 3600) if wall else 0,
        'fault_kinds_fired': {'seeded-completion-order': stats['choices'],
                              'instruction-raises-on-first-execution (table re-run on 5 backends)': stats['transient'],
                              'poisoned-request-inside-pipeline (pyfunc expression)': stats['poisoned']},
        'real_components': ['flow.compile', 'dask.Runner._mkjob/run', 'dask.threaded.get / dask.multiprocessing.get / '
                            'dask.local.get_async', 'cloudpickle of every task and result (processes)', 'pyfunc.Expression',
                            'runtime.Runner.train/apply (W2)', 'asset.State + posix.Registry (W2)'],
        'stubbed_components': ['executor pool and result queue of the Dask local schedulers (PRNG decides completion)',
                               'actors (symbolic)'],
        'not_simulated': ['dask synchronous and pyfunc have a single schedule: plain differential execution',
                          'distributed scheduler (sockets)', 'intra-task interleavings (tasks are atomic)'],
        'sweep_completed': exhausted, 'harness_errors': len(errors),
    }
    base.write_evidence(PROP, tier, seed0, 'exploration', coverage, wall, nviol, [
        'tasks are atomic in the simulation: forml instructions build a fresh actor per call and share nothing but '
        'their arguments',
        'pyfunc and dask-synchronous results come from differential execution, not from schedule exploration'])
    print(f'{PROP}: tables={nruns} (w1={ncases["w1"]}, w2={ncases["w2"]}) distinct={len(digests)} completion_orders='
          f'{len(schedules)} violations={nviol} known={len(known)} harness_errors={len(errors)} wall={wall:.1f}s')
    for err in errors[:5]:
        print('HARNESS-ERROR:', err[:600], file=sys.stderr)
    if nviol:
        return base.EXIT_VIOLATION
    return base.EXIT_HARNESS if errors else base.EXIT_OK
