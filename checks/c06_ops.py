"""Operations a crashbox child executes for C06 (real feed code; no model logic)."""
import io
import os
import pathlib

import pandas

from forml.provider.feed import alchemy, lazy, monolite  # noqa: F401 pylint: disable=unused-import

from workloads import feeds


def _boot(ctx) -> None:
    """What a process started with FORML_HOME=<home> has: a fresh result cache object over that directory."""
    if ctx.get('booted'):
        return
    home = pathlib.Path(os.environ['C06_HOME'])
    alchemy.Feed.Reader.RESULTS = alchemy.Results(home / '.cache' / 'alchemy')
    real = pandas.DataFrame.to_parquet

    def to_parquet(self, path=None, *args, **kwargs):
        # pyarrow writes natively; route file targets through python-level (interposed) file objects so that the
        # cache write has crash points like any other write
        if isinstance(path, (str, os.PathLike)):
            buf = io.BytesIO()
            real(self, buf, *args, **kwargs)
            with open(path, 'wb') as handle:
                handle.write(buf.getvalue())
            return None
        return real(self, path, *args, **kwargs)

    pandas.DataFrame.to_parquet = to_parquet
    ctx['booted'] = True
    ctx['feeds'] = {}


def read(ctx, storage: str, kind: str, location: str, sid: str, content=None, reuse: bool = True):
    _boot(ctx)
    key = (storage, repr(content) if kind == 'inline' else None)
    if not reuse:  # a feed and a producer of its own, gone afterwards
        feed = feeds.make_feed(kind, location, content)
        reader = feed.producer(feed.sources, feed.features, **feed._readerkw)  # pylint: disable=protected-access
        return feeds.norm(reader(feeds.statement(sid)).to_rows(), sid)
    # one feed per storage (content) and one producer per feed and process, like Feed.load() which uses one for all the
    # statements of a pipeline. Both are kept for the life of the process and looked up by the storage key - never by
    # id(): with two interleaved readers one of two feeds made at the same time is dropped, and an id()-keyed table
    # would hand its producer to whatever object is allocated at that address later (a false alarm this harness raised
    # on itself once in six quick runs, see DESIGN.md 8.4)
    if key not in ctx['feeds']:
        ctx['feeds'].setdefault(key, feeds.make_feed(kind, location, content))
    feed = ctx['feeds'][key]
    readers = ctx.setdefault('readers', {})
    if key not in readers:
        readers.setdefault(key, feed.producer(feed.sources, feed.features, **feed._readerkw))  # pylint: disable=protected-access
    data = readers[key](feeds.statement(sid))
    return feeds.norm(data.to_rows(), sid)


def read2(ctx, reads: list, schedule: list):
    """Two readers of one process, interleaved at the tracked file-system calls by an explicit schedule."""
    from crashbox import threads  # pylint: disable=import-outside-toplevel

    _boot(ctx)
    inter = threads.Interleaver(ctx['disk'], schedule, trace_files=(
        'forml/provider/feed/alchemy.py', 'forml/provider/feed/lazy.py', 'forml/provider/feed/reader/alchemy.py',
        'forml/io/_input/_producer.py'))
    results = inter.run([lambda a=a: read(ctx, **a) for a in reads])
    return {'results': results, 'switches': inter.switches, 'decisions': inter.decisions}


OPS = {'read': read, 'read2': read2}
