"""C17 - model-selection strategies honour their contract on every request history.

Two run classes:

* ``latest`` (Engine A): the real ``Latest._refresh`` daemon thread, 1-3 selecting client threads and
  a trainer "process" that publishes releases and commits generations into real ``posix.Registry``
  directories run under the kernel: virtual clock (a 30 s refresh interval costs nothing), seeded
  interleavings (clients/refresher pre-empted at GIL-faithful points inside ``_strategy.py`` and the
  asset directory code; the trainer yields at every mutating file-system call), refresher stalls.
  Oracle: every selection equals ``latest(s)`` of the reference step function for some
  ``s in [t_invoke - interval - stall, t_return]`` (which is freshness *and* bounded liveness), the
  first selection on a registry is fresh, selections of one client never go back, releases without a
  generation are never selected, selection fails only while no model exists.
* ``abtest`` (request histories are the only events; plain sequential execution, reported as such):
  share bound and never-fails over every prefix for generated variant/weight sets, plus ``Explicit``.
"""
from detsim import seams  # isort: skip

seams.install()

# pylint: disable=wrong-import-position
import collections
import errno
import json
import logging
import os
import pathlib
import pickle
import random
import shutil
import sys
import tempfile
import time
import typing

import forml
from forml import application
from forml import project as prjmod
from forml.io import asset
from forml.provider.registry.filesystem import posix

from crashbox import disk as diskmod
from detsim import kernel as kmod
from detsim import runner as runmod
from detsim import sim
from vlib import base
from workloads import serving

PROP = 'C17'
PROJECTS = ['pa', 'pb']
VERSIONS = ['1', '2', '3', '4', '5', '6']
KNOWN_AB = 'abtest-share-bound-3plus-variants'


# ------------------------------------------------------------------------------------------------
# Latest under the kernel
# ------------------------------------------------------------------------------------------------
def gen_storm_cfg(seed: int) -> dict:
    """Swarm template "storage storm": one registry with several populated releases, floating and pinned selectors on
    a short refresh interval, many client calls and a refresher whose directory scans fail often."""
    rng = random.Random(seed ^ 0x5707)
    interval = rng.choice([0.1, 1.0])
    horizon = round(interval * 25, 3)
    nrel = rng.randint(2, 3)
    initial = [{'reg': 0, 'project': PROJECTS[0], 'release': ver, 'generations': rng.choice([1, 2])}
               for ver in VERSIONS[:nrel]]
    selectors = [{'project': PROJECTS[0], 'release': None, 'refresh': interval}]
    if rng.random() < 0.5:
        selectors.append({'project': PROJECTS[0], 'release': rng.choice(VERSIONS[:nrel]), 'refresh': interval})
    events = sorted(({'at': round(rng.random() * horizon, 3), 'kind': 'commit', 'reg': 0, 'project': PROJECTS[0],
                      'rel': rng.randint(0, 5)} for _ in range(rng.randint(0, 3))), key=lambda e: e['at'])
    clients = []
    for cid in range(rng.choice([1, 2])):
        calls = sorted(round(rng.random() * horizon * 1.2, 3) for _ in range(rng.randint(8, 14)))
        clients.append({'cid': cid, 'selector': rng.randrange(len(selectors)), 'calls': [{'at': t, 'reg': 0} for t in calls]})
    return {'seed': seed, 'mode': 'latest', 'nreg': 1, 'initial': initial, 'selectors': selectors, 'events': events,
            'clients': clients, 'horizon': horizon, 'template': 'storage-storm',
            'kernel': {'policy': 'random', 'preempt_p': rng.choice([0.05, 0.2]), 'pct_depth': 1, 'pct_horizon': 200,
                       'faults': {'registry-io-error': rng.choice([0.2, 0.4])}, 'max_steps': 300000}}


def gen_latest_cfg(seed: int) -> dict:
    if random.Random(seed ^ 0x570).random() < 0.12:
        return gen_storm_cfg(seed)
    rng = random.Random(seed)
    nreg = rng.choice([1, 1, 2])
    nproj = rng.choice([1, 2])
    interval = rng.choice([0.1, 1.0, 5.0, 30.0, 60.0])
    horizon = round(interval * rng.choice([2, 5, 10, 25]), 3)  # bounded number of refresh cycles per run
    initial = []  # what exists before the selectors start
    for reg in range(nreg):
        for project in PROJECTS[:nproj]:
            nrel = rng.randint(1, 3)
            for ver in VERSIONS[:nrel]:
                initial.append({'reg': reg, 'project': project, 'release': ver,
                                'generations': rng.choice([0, 0, 1, 2])})
    selectors = []
    for idx in range(rng.choice([1, 1, 2, 3])):
        project = rng.choice(PROJECTS[:nproj])
        release = rng.choice(VERSIONS[:2]) if rng.random() < 0.3 else None
        selectors.append({'project': project, 'release': release,
                          'refresh': interval if idx == 0 else interval * rng.choice([0.5, 1, 2, 10])})
    events = []  # trainer events at virtual times
    for _ in range(rng.randint(0, 10)):
        kind = rng.choice(['commit', 'commit', 'commit', 'publish'])
        events.append({'at': round(rng.random() * horizon, 3), 'kind': kind, 'reg': rng.randrange(nreg),
                       'project': rng.choice(PROJECTS[:nproj]), 'rel': rng.randint(0, 5)})
    events.sort(key=lambda e: e['at'])
    clients = []
    for cid in range(rng.choice([1, 2, 3])):
        calls = sorted(round(rng.random() * horizon * 1.3, 3) for _ in range(rng.randint(1, 12)))
        clients.append({'cid': cid, 'selector': rng.randrange(len(selectors)),
                        'calls': [{'at': t, 'reg': rng.randrange(nreg)} for t in calls]})
    # a descriptor (and the selector in it) is pickled whenever it crosses a process boundary: from a seeded call on the
    # client goes on with a pickled copy of its selector - possibly one that has served already (warm cache)
    ship = random.Random(seed ^ 0x5417)
    for spec in clients:
        if ship.random() < 0.3 and len(spec['calls']) > 1:
            spec['ship_at'] = ship.randrange(1, len(spec['calls']))
    faults = {}
    if rng.random() < 0.4:
        faults['stall'] = rng.choice([0.001, 0.01])
    if rng.random() < 0.3:
        faults['registry-io-error'] = rng.choice([0.02, 0.1])
    if rng.random() < 0.25:
        faults['registry-slow'] = rng.choice([0.02, 0.1])
    return {'seed': seed, 'mode': 'latest', 'nreg': nreg, 'initial': initial, 'selectors': selectors,
            'events': events, 'clients': clients, 'horizon': horizon,
            'kernel': {'policy': rng.choice(['random', 'random', 'pct']), 'preempt_p': rng.choice([0.05, 0.2, 0.5]),
                       'pct_depth': rng.randint(1, 4), 'pct_horizon': rng.choice([200, 1000, 4000]),
                       'faults': faults, 'max_steps': 300000}}


def _trivial_package(root: pathlib.Path, project: str, release: str) -> prjmod.Package:
    target = root / 'pkgs' / f'{project}-{release}'
    pkg = target / f'{project}_pkg'
    pkg.mkdir(parents=True)
    (pkg / '__init__.py').write_text('')
    prjmod.Manifest(project, release, f'{project}_pkg').write(target)
    return prjmod.Package(target)


def _commit(directory: asset.Directory, project: str, release: str, payload: bytes) -> int:
    instance = asset.Instance(project, release, None, directory)
    accessor = instance.state([0], instance.tag.training.trigger())
    accessor.commit([accessor.dump(payload)])
    return int(accessor._generation.key)  # pylint: disable=protected-access


class FlakyRegistry(posix.Registry):
    """The registry as the serving side sees it: listings may hit a transient storage error (injected only into
    the refresher task, so that a client's own selection never fails for a reason the property does not allow)."""

    refresher_errors = 0
    armed: set = set()  # tasks whose next directory scan fails with EIO

    refresher_delay = 0.0

    def _maybe_fail(self, what: str):
        k = kmod.current()
        if k is None or '_refresh' not in k.me().name:
            return
        if k.fault('registry-slow'):  # a listing that takes (virtual) time - possibly longer than the refresh interval
            delay = (0.3, 3.0, 40.0)[k.choose(3)]
            FlakyRegistry.refresher_delay += delay
            k.sleep(delay, 'registry.slow')
        if k.fault('registry-io-error'):
            FlakyRegistry.refresher_errors += 1
            if k.choose(2):
                # the error hits the directory scan itself (below the registry's own error handling)
                FlakyRegistry.armed.add(k.me().tid)
                return
            raise OSError(f'injected transient storage error while listing {what}')

    order_rng: typing.Optional[random.Random] = None  # a storage lists its entries in whatever order it likes

    def _any_order(self, items):
        items = sorted(items)
        if self.order_rng is not None:
            self.order_rng.shuffle(items)
        return items

    def releases(self, project):
        self._maybe_fail('releases')
        return self._any_order(super().releases(project))

    def generations(self, project, release):
        self._maybe_fail('generations')
        return self._any_order(super().generations(project, release))


def simulate_latest(cfg: dict, root: str, schedule: typing.Optional[list] = None) -> dict:
    logging.disable(logging.CRITICAL)
    root = pathlib.Path(root)
    registries = [posix.Registry(root / f'reg{i}', staging=root / f'stage{i}') for i in range(cfg['nreg'])]
    # the model: per registry and project {release: number of generations}; timeline of (time, reg, project, snapshot)
    model: list[dict] = [collections.defaultdict(dict) for _ in registries]
    for item in cfg['initial']:
        directory = asset.Directory(registries[item['reg']])
        directory.get(item['project']).put(_trivial_package(root / f'i{item["reg"]}', item['project'], item['release']))
        model[item['reg']][item['project']][item['release']] = 0
        for _ in range(item['generations']):
            _commit(asset.Directory(registries[item['reg']]), item['project'], item['release'], b'init')
            model[item['reg']][item['project']][item['release']] += 1
    timeline: list = [(0.0, r, p, dict(rels)) for r, projects in enumerate(model) for p, rels in projects.items()]
    kcfg = dict(cfg['kernel'])
    kcfg.update(trace_files=seams.TRACE_FILES, trace_entry_files=seams.TRACE_ENTRY_FILES, keep_log=False)
    if schedule is not None:
        kcfg['schedule'] = list(schedule)
    kernel = kmod.Kernel(cfg['seed'], kcfg)
    selectors = [application.Latest(project=s['project'], release=s['release'], refresh=s['refresh'])
                 for s in cfg['selectors']]
    # the serving side sees the registries through its own directory objects (one per registry, like a gateway)
    FlakyRegistry.refresher_errors = 0
    FlakyRegistry.refresher_delay = 0.0
    FlakyRegistry.order_rng = random.Random(cfg['seed'] ^ 0x0D)
    FlakyRegistry.armed = set()
    served = [asset.Directory(FlakyRegistry(root / f'reg{i}', staging=root / f'stage{i}')) for i in range(cfg['nreg'])]
    history: list[dict] = []
    trainer_task = {}

    # trainer: every mutating file-system call is a scheduling point (it is another process)
    def fs_point():
        pass

    class _Disk(diskmod.Disk):
        def point(self, kind, path, size=None):
            k = kmod.current()
            if k is not None and k.me() is trainer_task.get('task'):
                k.yield_(f'fs:{kind}')
            return None

    disk = _Disk(str(root), fs_point)
    diskmod.install(disk)
    disk.enabled = True
    real_listdir = os.listdir

    def flaky_listdir(path='.'):
        k = kmod.current()
        if k is not None and k.current is not None and k.me().tid in FlakyRegistry.armed:
            FlakyRegistry.armed.discard(k.me().tid)
            raise OSError(errno.EIO, 'injected: I/O error', os.fspath(path))
        return real_listdir(path)

    os.listdir = flaky_listdir

    def trainer():
        trainer_task['task'] = kernel.me()
        for event in cfg['events']:
            if event['at'] > kernel.now:
                kernel.sleep(event['at'] - kernel.now, 'trainer.wait')
            reg, project = event['reg'], event['project']
            rels = model[reg][project]
            directory = asset.Directory(registries[reg])
            began = kernel.now
            if event['kind'] == 'publish':
                nxt = next((v for v in VERSIONS if v not in rels), None)
                if nxt is None:
                    continue
                directory.get(project).put(_trivial_package(root / f'e{reg}-{kernel.step}', project, nxt))
                rels[nxt] = 0
                kernel.note('published', f'{reg}/{project}/{nxt}')
            else:
                if not rels:
                    continue
                release = sorted(rels, key=int)[event['rel'] % len(rels)]
                _commit(directory, project, release, b'state-%d' % kernel.step)
                rels[release] += 1
                kernel.note('committed', f'{reg}/{project}/{release}/{rels[release]}')
            # the commit became visible somewhere inside the call: its interval is [began, now] (virtual time passes
            # inside it when the trainer is stalled half way)
            timeline.append((kernel.now, reg, project, dict(rels), began))
        trainer_task['done'] = True

    def client(spec: dict):
        selector = selectors[spec['selector']]
        for number, call in enumerate(spec['calls']):
            if call['at'] > kernel.now:
                kernel.sleep(call['at'] - kernel.now, 'client.wait')
            if number == spec.get('ship_at'):
                selector = pickle.loads(pickle.dumps(selector))
                kernel.stats['fault:selector-shipped-as-pickle'] += 1
            rec = {'cid': spec['cid'], 'selector': spec['selector'], 'reg': call['reg'], 't0': kernel.now,
                   's0': kernel.step}
            try:
                instance = selector.select(served[call['reg']], None, None)
                gen = instance._generation  # pylint: disable=protected-access
                rec['result'] = [str(gen.project.key), str(gen.release.key), int(gen.key)]
            except (asset.Level.Listing.Empty, asset.Level.Invalid) as err:
                # no model to select (nothing trained yet / the configured release is not published)
                rec['result'] = None
                rec['error'] = f'{type(err).__name__}: {err}'[:120]
            except Exception as err:  # pylint: disable=broad-except
                rec['result'] = 'EXC'
                rec['error'] = f'{type(err).__name__}: {err}'[:160]
            rec['t1'] = kernel.now
            rec['s1'] = kernel.step
            # slack: every stall injected so far (a stalled lock holder delays the refresher just as well) plus one
            # refresh interval per refresh cycle that was lost to an injected storage error
            rec['stall'] = sum(kernel.stalled.values()) + FlakyRegistry.refresher_errors * max(
                s['refresh'] for s in cfg['selectors']) + FlakyRegistry.refresher_delay
            history.append(rec)
            kernel.note('selected', json.dumps(rec['result']))

    def main():
        tasks = [kernel.spawn(trainer, 'trainer', 'process')]
        for spec in cfg['clients']:
            tasks.append(kernel.spawn(lambda spec=spec: client(spec), f'client{spec["cid"]}', 'thread'))
        for task in tasks:
            while task.state != kmod.DONE:
                kernel.block(('join', task.tid), None, 'main.join')

    outcome = 'completed'
    try:
        kernel.run(main)
    except (kmod.Deadlock, kmod.StepBudget) as err:
        outcome = f'{type(err).__name__}: {err}'
    return {'history': history, 'timeline': timeline, 'outcome': outcome, 'steps': kernel.step, 'vtime': kernel.now,
            'switches': kernel.switches, 'stats': dict(kernel.stats), 'probes': dict(kernel.probes),
            'digest': kernel.digest(), 'decisions': kernel.decisions}


def latest_of(rels: dict, configured: typing.Optional[str]) -> typing.Optional[list]:
    """The reference: newest generation of the highest release that has any (or of the configured one)."""
    if configured is not None:
        if configured not in rels or not rels[configured]:
            return None
        return [configured, rels[configured]]
    for release in sorted(rels, key=int, reverse=True):
        if rels[release]:
            return [release, rels[release]]
    return None


def scan_results(first: dict, later: dict, configured: typing.Optional[str]) -> list:
    """A pick is a scan, not a snapshot: it lists the releases, then the generations of one release after the other from
    the highest down, and commits may land in between (at the same virtual instant under pre-emption, or virtual
    seconds apart when a listing is slow). What a scan that started in state `first` and finished in state `later` can
    return: a release it listed at the start whose higher siblings were empty when it looked at them (at the earliest:
    at the start), with the generations that release had when the scan got there."""
    if configured is not None:
        return [[configured, later[configured]]] if later.get(configured) else []
    out = []
    for release in sorted(first, key=int, reverse=True):
        if later.get(release):
            out.append([release, later[release]])
        if first[release]:
            break  # not empty at the start (and so never after): the scan stops here at the latest
    return out


def judge_latest(cfg: dict, result: dict) -> list[dict]:
    out = []
    if result['outcome'] != 'completed':
        out.append({'class': 'hang', 'detail': result['outcome'][:300]})
    timeline = sorted(result['timeline'], key=lambda e: e[0])
    last_seen: dict = {}
    firsts: dict = {}  # the earliest *invoked* selection per (selector, registry) is the one without a cache
    for rec in result['history']:
        key = (rec['selector'], rec['reg'])
        if key not in firsts or rec['s0'] < firsts[key]:
            firsts[key] = rec['s0']
    for rec in sorted(result['history'], key=lambda r: r['s1']):
        spec = cfg['selectors'][rec['selector']]
        project, configured = spec['project'], spec['release']
        key = (rec['selector'], rec['reg'])
        first = rec['s0'] == firsts[key]
        # freshness window; the trainer's event at time T is visible at some instant of its own execution, which
        # (virtual time stands still while tasks are runnable) all happens at T - so `<=`/`>=` on both ends
        lo = rec['t0'] if first else rec['t0'] - spec['refresh'] - rec['stall'] - 1e-9
        states = [e for e in timeline if e[1] == rec['reg'] and e[2] == project]
        before = [e for e in states if e[0] < lo]  # completed before the window: the least that must be known
        inside = [e for e in states if e[0] >= lo and (e[4] if len(e) > 4 else e[0]) <= rec['t1'] + 1e-9]
        candidates = ([before[-1]] if before else []) + inside
        allowed = []
        for _, _, _, rels, *_ in candidates:
            value = latest_of(rels, configured)
            allowed.append(None if value is None else [project, *value])
        for i, early in enumerate(candidates):  # scans that saw the registry change under them
            for late in candidates[i + 1:]:
                for value in scan_results(early[3], late[3], configured):
                    if [project, *value] not in allowed:
                        allowed.append([project, *value])
        if not candidates:
            allowed = [None]
        where = (f'client {rec["cid"]} selector {rec["selector"]} ({project}, release={configured}, refresh='
                 f'{spec["refresh"]}) on registry {rec["reg"]} at t=[{rec["t0"]}, {rec["t1"]}]')
        if rec['result'] == 'EXC':
            out.append({'class': 'selection-failed', 'detail': f'{where}: raised {rec["error"]}'})
            continue
        if rec['result'] not in allowed:
            newest = allowed[-1]
            klass = 'stale-selection' if rec['result'] is not None and newest is not None and \
                _order(rec['result']) < _order(newest) else 'wrong-selection'
            if rec['result'] is None:
                klass = 'selection-failed'
            out.append({'class': klass, 'detail': f'{where}: returned {rec["result"]} ({rec.get("error", "")}), the '
                                                  f'reference allows {allowed} (first={first}, stall={rec["stall"]})'})
            continue
        if rec['result'] is not None:
            prev = last_seen.get((rec['cid'], key))
            if prev is not None and _order(rec['result']) < _order(prev):
                # not a violation: the value is inside the freshness window (checked above) and the statement asks for
                # freshness within the refresh interval, not for monotonicity - a pick resolved just before a commit
                # may be stored just after a client resolved the (lazy) cached instance to the newer generation, and
                # the next refresh repairs it. Counted as a reach probe.
                result.setdefault('went_back_within_window', 0)
                result['went_back_within_window'] += 1
            last_seen[(rec['cid'], key)] = rec['result']
    return out


def _order(result: list) -> tuple:
    return (int(result[1]), result[2])


# ------------------------------------------------------------------------------------------------
# ABTest / Explicit request histories
# ------------------------------------------------------------------------------------------------
AB_TEMPLATE: typing.Optional[pathlib.Path] = None


def build_ab_template() -> pathlib.Path:
    """A registry with one project, 2 releases x 3 generations (dummy states): variants must exist."""
    global AB_TEMPLATE  # pylint: disable=global-statement
    if AB_TEMPLATE is None:
        import atexit  # pylint: disable=import-outside-toplevel

        root = pathlib.Path(tempfile.mkdtemp(prefix='c17-ab-', dir=serving.scratch_parent()))
        owner = os.getpid()
        atexit.register(lambda: os.getpid() == owner and shutil.rmtree(root, ignore_errors=True))
        registry = posix.Registry(root / 'reg', staging=root / 'stage')
        for release in ('1', '2'):
            asset.Directory(registry).get('pa').put(_trivial_package(root, 'pa', release))
            for _ in range(3):
                _commit(asset.Directory(registry), 'pa', release, b'x')
        AB_TEMPLATE = root
    return AB_TEMPLATE


def gen_ab_cfg(seed: int) -> dict:
    rng = random.Random(seed)
    nvar = rng.choice([2, 2, 2, 3, 3, 4, 5, 6])
    pool = [(r, g) for r in ('1', '2') for g in (1, 2, 3)]
    chosen = rng.sample(pool, nvar)
    style = rng.choice(['floats', 'floats-complement', 'ints', 'ints-missing', 'none', 'sum-one-missing', 'mixed'])
    targets: list = []
    if style == 'none':
        targets = [None] * nvar
    elif style == 'ints':
        targets = [rng.randint(1, 12) for _ in range(nvar)]
    elif style == 'ints-missing':
        targets = [rng.randint(1, 12) if rng.random() < 0.6 else None for _ in range(nvar)]
    elif style == 'floats':
        targets = [max(0.01, round(rng.uniform(0.02, 0.9), rng.choice([1, 2, 3]))) for _ in range(nvar)]
    elif style == 'floats-complement':
        raw = [max(0.01, round(rng.uniform(0.02, 0.9 / nvar), 2)) for _ in range(nvar)]
        targets = [None if i >= nvar - rng.randint(1, max(1, nvar - 1)) else raw[i] for i in range(nvar)]
    elif style == 'sum-one-missing':
        k = rng.randint(1, nvar - 1)
        parts = [1.0 / k] * k if rng.random() < 0.5 else ([0.5, 0.5] + [])[:k] or [1.0]
        if k == 1:
            parts = [1]
        elif len(parts) != k:
            parts = [1.0 / k] * k
        targets = parts + [None] * (nvar - k)
    else:
        targets = [rng.choice([None, 1, 3, 0.25, 0.5, 2.5]) for _ in range(nvar)]
    n = rng.choice([10, 50, 200, 1000, 2000])
    extra = random.Random(seed ^ 0xAB5)
    if extra.random() < 0.03:
        n = 70000 if os.environ.get('VERIF_TIER', 'quick') == 'quick' else extra.choice([70000, 100000, 140000])  # long-lived selectors: counters far beyond anything a test would reach
    cfg = {'seed': seed, 'mode': 'abtest', 'variants': [{'release': r, 'generation': g, 'target': t}
                                                        for (r, g), t in zip(chosen, targets)],
           'n': n, 'explicit': {'release': chosen[0][0], 'generation': chosen[0][1]}}
    # the selector is part of an application descriptor, which gets pickled whenever it crosses a process boundary:
    # after these requests the history continues on a pickled copy
    cfg['ships'] = sorted(rng.sample(range(1, n), rng.randint(1, 3))) if rng.random() < 0.35 else []
    # cold start: the selectors are asked for the first time while the serving registry is still empty (the project
    # is published and trained right afterwards) - what they return from then on must come from THIS registry
    cfg['cold'] = extra.random() < 0.2
    return cfg


def reference_shares(targets: list) -> list[float]:
    """Normalised target shares as documented: an omitted target is the complement to 1 when the given ones
    sum below 1, otherwise the mean of the given ones (all omitted: equal shares)."""
    given = [t for t in targets if t]
    missing = sum(1 for t in targets if not t)
    if missing:
        if not given:
            filled = [1.0] * len(targets)
        else:
            explicit = sum(given)
            implicit = (1 - explicit) / missing if explicit < 1 else explicit / len(given)
            filled = [t or implicit for t in targets]
    else:
        filled = list(targets)
    total = sum(filled)
    return [t / total for t in filled]


def first_eligible_sequence(shares: list[float], n: int) -> list[int]:
    """The (known-defective for >=3 variants) rule of the current implementation, replayed independently:
    slots ordered by share descending (stable), pick the first whose count/total is below its share."""
    order = sorted(range(len(shares)), key=lambda i: shares[i], reverse=True)
    counts = [0] * len(shares)
    seq = []
    for total in range(1, n + 1):
        for i in order:
            if counts[i] / total < shares[i]:
                counts[i] += 1
                seq.append(i)
                break
        else:
            seq.append(-1)
    return seq


def run_abtest(cfg: dict) -> dict:
    logging.disable(logging.CRITICAL)
    root = AB_TEMPLATE
    directory = asset.Directory(posix.Registry(root / 'reg', staging=root / 'stage'))
    variants = cfg['variants']
    out = {'violations': [], 'known': [], 'max_dev': 0.0}
    targets = [v['target'] for v in variants]
    try:
        first, *rest = variants
        builder = application.ABTest.compare('pa', first['release'], first['generation'], first['target'])
        for var in rest[:-1]:
            builder = builder.over(var['generation'], release=var['release'], target=var['target'])
        selector = builder.against(rest[-1]['generation'], release=rest[-1]['release'], target=rest[-1]['target'])
    except Exception as err:  # pylint: disable=broad-except
        out['violations'].append({'class': 'abtest-construction-failed', 'detail': f'targets {targets}: '
                                                                                   f'{type(err).__name__}: {err}'})
        return out
    exp = application.Explicit('pa', cfg['explicit']['release'], cfg['explicit']['generation'])
    cold = None
    if cfg.get('cold'):
        cold = pathlib.Path(tempfile.mkdtemp(prefix='c17-cold-', dir=serving.scratch_parent()))
        os.environ['FORML_HOME'] = str(cold / 'home')  # (whatever "the platform default registry" is, it is not ours)
        (cold / 'reg').mkdir()
        directory = asset.Directory(posix.Registry(cold / 'reg', staging=cold / 'stage'))
        early: list = []
        for sel in (selector, exp):
            try:
                picked = sel.select(directory, None, None)
            except Exception:  # pylint: disable=broad-except
                picked = None  # nothing to select yet
            early.append(picked)
            try:
                picked.tag  # pylint: disable=pointless-statement
            except Exception:  # pylint: disable=broad-except
                pass  # (a lazy reference to something that does not exist yet)
        shutil.copytree(root / 'reg', cold / 'reg', dirs_exist_ok=True)
        out['cold'] = True
    shares = reference_shares(targets)
    ids = [[v['release'], v['generation']] for v in variants]
    counts = [0] * len(variants)
    seq = []
    worst = None
    for n in range(1, cfg['n'] + 1):
        if n - 1 in cfg.get('ships', ()):
            selector = pickle.loads(pickle.dumps(selector))
        try:
            if n == 1 and cold is not None and early[0] is not None:
                instance = early[0]  # request 1 was the one made while the registry was empty (it counts)
            else:
                instance = selector.select(directory, None, None)
        except Exception as err:  # pylint: disable=broad-except
            out['violations'].append({'class': 'selection-failed', 'detail': f'ABTest targets {targets}: request {n} '
                                                                             f'raised {type(err).__name__}: {err}'})
            return out
        gen = instance._generation  # pylint: disable=protected-access
        if n == 1 or n == cfg['n']:
            try:  # the instance is a lazy reference: it must resolve - within the registry it was selected from
                instance.tag  # pylint: disable=pointless-statement
                if cold is not None and gen.registry is not directory.registry and gen.registry != directory.registry:
                    raise forml.MissingError(f'bound to {gen.registry!r} instead of {directory.registry!r}')
            except Exception as err:  # pylint: disable=broad-except
                out['violations'].append({'class': 'selection-failed',
                                          'detail': f'ABTest targets {targets}: the instance selected by request {n} '
                                                    f'does not resolve: {type(err).__name__}: {err}'
                                                    + (' [first asked while the registry was empty]' if cold else '')})
                return out
        got = [str(gen.release.key), int(gen.key)]
        if got not in ids or str(gen.project.key) != 'pa':
            out['violations'].append({'class': 'wrong-selection', 'detail': f'ABTest returned {got}, not a variant'})
            return out
        idx = ids.index(got)
        counts[idx] += 1
        seq.append(idx)
        for i, share in enumerate(shares):
            dev = abs(counts[i] - share * n)
            if dev > out['max_dev']:
                out['max_dev'] = dev
            if dev > 1 + 1e-9 and worst is None:
                worst = (n, i, counts[i], share)
    if worst is not None:
        n, i, count, share = worst
        detail = (f'ABTest targets {targets} (shares {[round(s, 4) for s in shares]}): after {n} requests variant {i} '
                  f'was selected {count} times, target {share * n:.3f}')
        vio = {'class': 'share-bound', 'detail': detail}
        if len(variants) >= 3 and seq == first_eligible_sequence(shares, cfg['n']):
            vio['known_id'] = KNOWN_AB  # exactly the documented-defective first-eligible sequence
        out['violations'].append(vio)
    # Explicit: one and the same configured instance for every request
    seen = set()
    for _ in range(min(cfg['n'], 50)):
        picked = exp.select(directory, None, None)
        gen = picked._generation  # pylint: disable=protected-access
        try:
            picked.tag  # pylint: disable=pointless-statement
        except Exception as err:  # pylint: disable=broad-except
            out['violations'].append({'class': 'selection-failed',
                                      'detail': f'the instance returned by Explicit does not resolve: {type(err).__name__}: '
                                                f'{err}' + (' [first asked while the registry was empty]' if cold else '')})
            break
        seen.add((str(gen.project.key), str(gen.release.key), int(gen.key)))
    if seen != {('pa', cfg['explicit']['release'], cfg['explicit']['generation'])}:
        out['violations'].append({'class': 'explicit-mismatch', 'detail': f'Explicit returned {sorted(seen)}'})
    out['digest'] = base.digest([seq[:200], counts])
    out['counts'] = counts
    if cold is not None:
        shutil.rmtree(cold, ignore_errors=True)
    return out


def gen_abc_cfg(seed: int) -> dict:
    """A/B selection from several threads at once (the serving wrapper calls select() from a thread pool)."""
    rng = random.Random(seed)
    cfg = gen_ab_cfg(seed)
    cfg.update(mode='abtest-concurrent', threads=rng.randint(2, 4), per_thread=rng.choice([2, 5, 12, 30]),
               kernel={'policy': 'random', 'preempt_p': rng.choice([0.1, 0.3, 0.6]), 'faults': {}, 'max_steps': 200000})
    return cfg


def simulate_abtest_concurrent(cfg: dict, schedule: typing.Optional[list] = None) -> dict:
    logging.disable(logging.CRITICAL)
    directory = asset.Directory(posix.Registry(AB_TEMPLATE / 'reg', staging=AB_TEMPLATE / 'stage'))
    variants = cfg['variants']
    first, *rest = variants
    builder = application.ABTest.compare('pa', first['release'], first['generation'], first['target'])
    for var in rest[:-1]:
        builder = builder.over(var['generation'], release=var['release'], target=var['target'])
    selector = builder.against(rest[-1]['generation'], release=rest[-1]['release'], target=rest[-1]['target'])
    kcfg = dict(cfg['kernel'])
    kcfg.update(trace_files=seams.TRACE_FILES, trace_entry_files=seams.TRACE_ENTRY_FILES, keep_log=False)
    if schedule is not None:
        kcfg['schedule'] = list(schedule)
    kernel = kmod.Kernel(cfg['seed'], kcfg)
    picks: list = []
    errors: list = []

    def client():
        for _ in range(cfg['per_thread']):
            try:
                gen = selector.select(directory, None, None)._generation  # pylint: disable=protected-access
                picks.append([str(gen.release.key), int(gen.key)])
            except Exception as err:  # pylint: disable=broad-except
                errors.append(f'{type(err).__name__}: {err}')
            kernel.yield_('client.next')

    def main():
        tasks = [kernel.spawn(client, f'selector{i}', 'thread') for i in range(cfg['threads'])]
        for task in tasks:
            while task.state != kmod.DONE:
                kernel.block(('join', task.tid), None, 'main.join')

    outcome = 'completed'
    try:
        kernel.run(main)
    except (kmod.Deadlock, kmod.StepBudget) as err:
        outcome = f'{type(err).__name__}: {err}'
    return {'picks': picks, 'errors': errors, 'outcome': outcome, 'steps': kernel.step, 'switches': kernel.switches,
            'stats': dict(kernel.stats), 'probes': dict(kernel.probes), 'digest': kernel.digest(),
            'decisions': kernel.decisions}


def judge_abtest_concurrent(cfg: dict, result: dict) -> list[dict]:
    out = []
    targets = [v['target'] for v in cfg['variants']]
    if result['outcome'] != 'completed':
        out.append({'class': 'hang', 'detail': result['outcome'][:200]})
    if result['errors']:
        out.append({'class': 'selection-failed', 'detail': f'ABTest targets {targets}, {cfg["threads"]} threads: '
                                                           f'{result["errors"][0]}'})
        return out
    shares = reference_shares(targets)
    ids = [[v['release'], v['generation']] for v in cfg['variants']]
    n = len(result['picks'])
    counts = [sum(1 for p in result['picks'] if p == i) for i in ids]
    if sum(counts) != n:
        out.append({'class': 'wrong-selection', 'detail': f'ABTest returned something that is not a variant: {result["picks"][:5]}'})
        return out
    # selections are serialised by the selector: the totals are those of SOME sequential history of n requests
    worst = max(range(len(ids)), key=lambda i: abs(counts[i] - shares[i] * n))
    dev = abs(counts[worst] - shares[worst] * n)
    if dev > 1 + 1e-9:
        vio = {'class': 'share-bound', 'detail': f'ABTest targets {targets} (shares {[round(s, 4) for s in shares]}) '
                                                 f'selected from {cfg["threads"]} threads at once: after {n} requests '
                                                 f'variant {worst} was selected {counts[worst]} times, target '
                                                 f'{shares[worst] * n:.3f}'}
        if len(ids) >= 3 and counts == [first_eligible_sequence(shares, n).count(i) for i in range(len(ids))]:
            vio['known_id'] = KNOWN_AB
        out.append(vio)
    return out


# ------------------------------------------------------------------------------------------------
# seed-level entry points
# ------------------------------------------------------------------------------------------------
def execute_latest(cfg: dict, schedule: typing.Optional[list] = None) -> tuple[dict, list[dict]]:
    root = tempfile.mkdtemp(prefix='c17-', dir=serving.scratch_parent())
    try:
        result = runmod.fork_run(simulate_latest, cfg, root, schedule, real_timeout=240, seed=cfg['seed'])
    finally:
        shutil.rmtree(root, ignore_errors=True)
    return result, judge_latest(cfg, result)


def run_seed(job) -> dict:
    seed, mode = job
    out = {'seed': seed, 'mode': mode, 'violations': [], 'known': [], 'harness': None}
    if mode == 'abtest':
        cfg = gen_ab_cfg(seed)
        try:
            res = runmod.fork_run(run_abtest, cfg, real_timeout=480, seed=cfg["seed"])
        except runmod.RunFailed as err:
            out['harness'] = str(err)[:1500]
            return out
        out.update(digest=res.get('digest'), nreq=cfg['n'], nvar=len(cfg['variants']), max_dev=res['max_dev'],
                   steps=0, vtime=0.0, stats={}, probes={})
        out['violations'] = [{**v, 'cfg': cfg, 'decisions': None} for v in res['violations']]
        if seed % 50 == 1:
            out['sample'] = {'seed': seed, 'mode': 'abtest', 'variants': cfg['variants'], 'n': cfg['n'],
                             'counts': res.get('counts'), 'max_deviation': round(res['max_dev'], 4)}
        return out
    if mode == 'abtest-concurrent':
        cfg = gen_abc_cfg(seed)
        try:
            result = runmod.fork_run(simulate_abtest_concurrent, cfg, real_timeout=240, seed=seed)
        except runmod.RunFailed as err:
            out['harness'] = str(err)[:1500]
            return out
        out.update(digest=result['digest'], steps=result['steps'], vtime=0.0, stats=result['stats'], probes=result['probes'],
                   nreq=len(result['picks']), nvar=len(cfg['variants']), max_dev=0.0)
        out['violations'] = [{**v, 'cfg': cfg, 'decisions': result['decisions']} for v in judge_abtest_concurrent(cfg, result)]
        if seed % 40 == 2:
            out['sample'] = {'seed': seed, 'mode': mode, 'variants': cfg['variants'], 'threads': cfg['threads'],
                             'per_thread': cfg['per_thread'], 'picks': result['picks'][:8], 'switches': result['switches']}
        return out
    cfg = gen_latest_cfg(seed)
    try:
        result, violations = execute_latest(cfg)
    except runmod.RunFailed as err:
        out['harness'] = str(err)[:1500]
        return out
    out.update(digest=result['digest'], steps=result['steps'], vtime=result['vtime'], stats=result['stats'],
               probes=result['probes'], nreq=len(result['history']), nvar=0, max_dev=0.0,
               commits=len(result['timeline']))
    out['violations'] = [{**v, 'cfg': cfg, 'decisions': result['decisions']} for v in violations]
    if seed % 50 == 0:
        out['sample'] = {'seed': seed, 'mode': 'latest', 'selectors': cfg['selectors'], 'initial': cfg['initial'],
                         'events': cfg['events'][:5], 'clients': [{**c, 'calls': c['calls'][:3]} for c in cfg['clients']],
                         'history': result['history'][:4], 'steps': result['steps'], 'virtual_seconds': result['vtime']}
    return out


def reproduces(cfg: dict, schedule, klass: str) -> typing.Optional[dict]:
    try:
        if cfg['mode'] == 'abtest-concurrent':
            result = runmod.fork_run(simulate_abtest_concurrent, cfg, schedule, real_timeout=240, seed=cfg['seed'])
            violations = judge_abtest_concurrent(cfg, result)
        elif cfg['mode'] == 'abtest':
            res = runmod.fork_run(run_abtest, cfg, real_timeout=480, seed=cfg["seed"])
            violations = res['violations']
        else:
            _, violations = execute_latest(cfg, schedule)
    except runmod.RunFailed:
        return None
    return next((v for v in violations if v['class'] == klass), None)


def minimise(cfg: dict, klass: str, budget: int = 50):
    tests = [0]

    def attempt(cand, sched=None):
        if tests[0] >= budget:
            return None
        tests[0] += 1
        return reproduces(cand, sched, klass)

    witness = attempt(cfg)
    if witness is None:
        return cfg, None, {'class': klass, 'detail': 'not reproduced on re-execution'}
    if cfg['mode'] == 'abtest-concurrent':
        best = cfg
        for per in (2, 5, 12):
            if per < best['per_thread']:
                got = attempt({**cfg, 'per_thread': per})
                if got is not None:
                    best, witness = {**cfg, 'per_thread': per}, got
                    break
        return best, None, witness
    if cfg['mode'] == 'abtest':
        best = cfg
        for n in (5, 10, 20, 50, 100, 200, 500):
            if n < best['n']:
                got = attempt({**cfg, 'n': n})
                if got is not None:
                    best, witness = {**cfg, 'n': n}, got
                    break
        return best, None, witness
    best = cfg
    for field in ('events', 'clients'):
        if len(best[field]) > 1:
            items = base.ddmin(best[field], lambda sub, f=field: attempt({**best, f: sub}) is not None,
                               max_tests=budget // 3)
            got = attempt({**best, field: items})
            if got is not None:
                best, witness = {**best, field: items}, got
    try:
        result, _ = execute_latest(best)
    except runmod.RunFailed:
        return best, None, witness
    sched = list(result['decisions'])
    if attempt(best, sched) is None:
        return best, None, witness
    chunk = max(1, len(sched) // 4)
    while tests[0] < budget:
        i = 0
        while i < len(sched) and tests[0] < budget:
            if any(sched[i:i + chunk]):
                cand = sched[:i] + [0] * len(sched[i:i + chunk]) + sched[i + chunk:]
                got = attempt(best, cand)
                if got is not None:
                    sched, witness = cand, got
            i += chunk
        if chunk == 1:
            break
        chunk = max(1, chunk // 4)
    while sched and sched[-1] == 0:
        sched.pop()
    return best, sched, witness


def main(argv: list[str]) -> int:
    import argparse  # pylint: disable=import-outside-toplevel

    parser = argparse.ArgumentParser(prog='check.py C17')
    parser.add_argument('--tier', default=None)
    parser.add_argument('--replay', default=None)
    parser.add_argument('--seeds', type=int, default=None)
    parser.add_argument('--budget', type=float, default=None)
    args = parser.parse_args(argv)
    logging.disable(logging.CRITICAL)
    build_ab_template()
    if args.replay:
        doc = json.loads(pathlib.Path(args.replay).read_text())
        got = reproduces(doc['config'], doc.get('schedule'), doc['violation']['class'])
        print(f'replay seed={doc["seed"]} expected={doc["violation"]["class"]} got={got and got["class"]}')
        if got:
            print(f'VIOLATION property={PROP} replay={args.replay}')
            print(f'  {got["detail"]}')
            return base.EXIT_VIOLATION
        return base.EXIT_OK
    tier = base.tier(args.tier)
    os.environ['VERIF_TIER'] = tier  # (the history generator draws longer A/B histories in the thorough tier)
    seed0 = base.base_seed()
    nseeds = args.seeds or (1500 if tier == 'quick' else 120000)
    budget = args.budget or (40 if tier == 'quick' else 1500)
    print(f'{PROP} seed={seed0} tier={tier} seeds<={nseeds} budget={budget}s')
    base.clean_replays(PROP)
    start = time.monotonic()
    jobs = [(seed0 * 100000 + i, 'abtest' if i % 4 == 3 else 'abtest-concurrent' if i % 8 == 6 else 'latest')
            for i in range(nseeds)]
    results, errors, exhausted = base.sweep(run_seed, jobs, budget, per_item_limit_s=600)
    base.emit_digests(results)
    open_ids = {f['id'] for f in base.open_findings(PROP)}
    stats: collections.Counter = collections.Counter()
    probes: collections.Counter = collections.Counter()
    digests, samples, violations, known = set(), [], [], {}
    counts = collections.Counter()
    steps = 0
    vtime = 0.0
    maxdev = 0.0
    for res in results:
        if res.get('harness'):
            errors.append(f'seed {res["seed"]}: {res["harness"]}')
            continue
        counts[res['mode']] += 1
        counts[res['mode'] + '_requests'] += res['nreq']
        counts['commits'] += res.get('commits', 0)
        stats.update(res['stats'])
        probes.update(res['probes'])
        digests.add((res['mode'], res['digest']))
        steps += res['steps']
        vtime += res['vtime']
        maxdev = max(maxdev, res['max_dev'])
        if res.get('sample') and len([s for s in samples if s['mode'] == res['mode']]) < 2:
            samples.append(res['sample'])
        for vio in res['violations']:
            if vio.get('known_id') in open_ids:
                known.setdefault(vio['known_id'], (res['seed'], vio))
                counts['known_hits'] += 1
            else:
                violations.append((res['seed'], vio))
    for fid, (seed, item) in sorted(known.items()):
        print(f'KNOWN-FINDING: property={PROP} {fid}: seed {seed}: {item["detail"][:220]} '
              f'[{counts["known_hits"]} histories hit it; the selection sequence equals the first-eligible reference]')
    reported = {}
    for seed, vio in violations:
        reported.setdefault(vio['class'], (seed, vio))
    nviol = 0
    for klass, (seed, vio) in sorted(reported.items()):
        cfg, sched, witness = minimise(vio['cfg'], klass)
        path = base.write_replay(PROP, f'{seed}-{nviol}', {
            'property': PROP, 'seed': seed, 'tier': tier, 'engine': 'A' if cfg['mode'] == 'latest' else 'sequential',
            'config': cfg, 'schedule': sched, 'ops': cfg.get('events') or cfg.get('variants'),
            'violation': {'class': klass, 'detail': witness['detail']}})
        print(f'VIOLATION property={PROP} replay={path}')
        print(f'  class={klass}: {witness["detail"][:400]}')
        nviol += 1
    wall = time.monotonic() - start
    nruns = counts['latest'] + counts['abtest'] + counts['abtest-concurrent']
    coverage = {
        'evaluations': nruns,
        'distinct_nontrivial': len(digests),
        'rule': 'one evaluation = one run: either (latest) a simulated history of the real Latest selector(s) with its '
                'refresher thread, 1-3 client threads and a trainer process over 1-2 real posix registries under one '
                'seeded schedule/virtual clock, or (abtest) one sequential request history of the real ABTest/Explicit '
                'selectors for one generated variant/weight set; distinct = distinct schedule-trace digests (latest) / '
                'distinct selection-sequence digests (abtest); non-trivial = at least one selection was judged',
        'samples': samples,
        'latest_runs': counts['latest'], 'latest_selections_judged': counts['latest_requests'],
        'registry_states_on_timelines': counts['commits'],
        'abtest_histories': counts['abtest'], 'abtest_requests': counts['abtest_requests'],
        'abtest_concurrent_runs': counts['abtest-concurrent'], 'abtest_concurrent_selections': counts['abtest-concurrent_requests'],
        'abtest_max_deviation_seen': round(maxdev, 4), 'abtest_known_finding_hits': counts['known_hits'],
        'seeds': [jobs[0][0], jobs[len(results) - 1][0]] if results else [],
        'runs_per_hour': round(nruns / wall * 3600) if wall else 0,
        'kernel_steps': steps, 'simulated_seconds': round(vtime, 1),
        'fault_kinds_fired': {k[6:]: v for k, v in stats.items() if k.startswith('fault:')},
        'preemption_points_offered': stats.get('preempt_points', 0),
        'reach_probes': dict(probes),
        'real_components': ['application.Latest (select/_pick/_refresh thread)', 'application.ABTest/Explicit',
                            'asset.Directory/Instance/State/Tag', 'posix.Registry on per-run directories'],
        'stubbed_components': ['threads, RLock, time.sleep (kernel)', 'trainer = kernel process task yielding at every '
                               'mutating file-system call', 'abtest/explicit part: no simulator (sequential histories)'],
        'sweep_completed': exhausted, 'harness_errors': len(errors),
    }
    base.write_evidence(PROP, tier, seed0, 'exploration', coverage, wall, nviol, [
        'reference for Latest is a step function over completed commits; a selection is correct if it equals the '
        'reference at some instant of [invoke - refresh - injected refresher stall, return]',
        'ABTest share reference: omitted target = complement to 1 if the given ones sum below 1, else their mean',
        'the ABTest/Explicit half has no schedule or fault in it: it is generated-history testing, not simulation',
        'pre-emption model as in C16 (CPython 3.12 GIL-faithful)'])
    print(f'{PROP}: latest_runs={counts["latest"]} selections={counts["latest_requests"]} abtest_histories='
          f'{counts["abtest"]} steps={steps} vtime={vtime:.0f}s violations={nviol} known={len(known)} '
          f'harness_errors={len(errors)} wall={wall:.1f}s')
    for err in errors[:5]:
        print('HARNESS-ERROR:', err[:800], file=sys.stderr)
    if nviol:
        return base.EXIT_VIOLATION
    return base.EXIT_HARNESS if errors else base.EXIT_OK
