"""C04 - persisted states are bound to the actors that produced them in every mode (Engine B).

Binding is positional across independently expanded graphs, and *what is expanded where* depends on
the history: which process trained, which process loads, what the process-global registries and
caches still hold from earlier compositions in the same incarnation, whether training was
incremental, whether a process died mid-commit. The engine controls exactly that: seeded histories of
publish / train / train again / apply latest / apply explicit / perftrack / serve / restart /
crash-during-train over generated projects (pipelines drawn from a small grammar of the public
composition API with 1-6 symbolic stateful actors of one and the same class), each step in the same
or in a new process incarnation, with the hyper-parameters "of the current code" changing between
incarnations. Actors log the state they were given; the oracle checks every logged state.
"""
import collections
import copy
import json
import os
import pathlib
import random
import sys
import time
import typing

from crashbox import box as boxmod
from vlib import base
from workloads import lifecycle as lc

PROP = 'C04'
OPTABLE = 'checks.c04_ops'
MODES = ['apply', 'perftrack', 'serve']


def gen_history(rng: random.Random) -> dict:
    nproj = rng.choice([1, 1, 2])
    releases = {}
    for project in ['pa', 'pb'][:nproj]:
        for release in ['1', '2'][:rng.choice([1, 1, 2])]:
            spec = lc.gen_spec(rng)
            while not lc.spec_names(spec, ('S', 'R')):
                spec = lc.gen_spec(rng)
            releases[f'{project}/{release}'] = spec
    ops = []
    for _ in range(rng.randint(4, 10)):
        kind = rng.choices(['train', 'load', 'restart', 'crash-train', 'session', 'duel'], [4, 7, 2, 0.8, 1.0, 0.6])[0]
        target = rng.choice(sorted(releases))
        if kind == 'duel':
            ops.append({'op': 'duel', 'target': target, 'mode': rng.choice(MODES[:2]), 'at': round(rng.random(), 3),
                        'explicit': rng.random() < 0.5})
            continue
        if kind == 'session':
            ops.append({'op': 'session', 'target': target, 'gen': rng.randint(0, 5),
                        'then': rng.choice(['apply', 'perftrack'])})
            continue
        if kind == 'train':
            ops.append({'op': 'train', 'target': target,
                        'interleave': round(rng.random(), 3) if rng.random() < 0.2 else None})
        elif kind == 'crash-train':
            ops.append({'op': 'train', 'target': target, 'crash': round(rng.random(), 4)})
            if rng.random() < 0.4:  # not a death: the file-system call fails with an I/O error, the process lives on
                ops[-1]['error'] = True
        elif kind == 'restart':
            ops.append({'op': 'restart'})
        else:
            ops.append({'op': rng.choice(MODES), 'target': target, 'gen': rng.choice([None, None, rng.randint(0, 5)]),
                        'ghost': rng.random() < 0.08,
                        'interleave': round(rng.random(), 3) if rng.random() < 0.3 else None})
    # transient read errors: opening a state / tag / any registry file fails once with EIO in the middle of a load
    flt = random.Random(rng.random())
    for op in ops:
        if op['op'] in MODES and not op.get('ghost') and op.get('interleave') is None and flt.random() < 0.35:
            op['readerr'] = round(flt.random(), 3)
            op['rmatch'] = flt.choice([['.bin'], ['.bin'], ['.toml'], []])
    return {'releases': releases, 'ops': ops}


class Run:
    """Interpreter of one history."""

    def __init__(self, seed: int, history: dict):
        self.seed = seed
        self.history = history
        self.box = boxmod.Box(OPTABLE, seed, prefix='c04-')
        self.logfile = os.path.join(self.box.base, 'log.jsonl')
        self.child: typing.Optional[boxmod.Child] = None
        self.hp = 1
        self.ntok = 0
        self.nchild = 0
        self.model: dict[str, list[dict]] = {}  # target -> list of generations {name: chain}
        self.stats: collections.Counter = collections.Counter()
        self.events: list = []
        self.trace: list = []
        self.rng = random.Random(seed ^ 0xC04)
        self.findings = base.open_findings(PROP)
        self.known: dict[str, str] = {}
        self.nstates: dict[str, int] = {}
        self.sigs: dict = {}

    def close(self):
        if self.child:
            self.child.close()
        self.box.destroy()

    def incarnation(self) -> boxmod.Child:
        if self.child is None or not self.child.alive:
            self.nchild += 1
            self.hp = self.nchild  # the "current code" differs per incarnation
            gcmode = self.rng.choice(['default', 'default', 'off', 'aggressive'])
            self.stats[f'gc:{gcmode}'] += 1
            scheduler = self.rng.choice(['synchronous', 'synchronous', 'threads', 'processes'])
            self.stats[f'scheduler:{scheduler}'] += 1
            self.child = boxmod.Child(self.box.root, OPTABLE, self.seed * 1009 + self.nchild,
                                      env={'LC_LOG': self.logfile, 'LC_HP': str(self.hp), 'LC_GC': gcmode,
                                           'LC_SCHEDULER': scheduler})
            self.stats['incarnations'] += 1
        return self.child

    def setup(self):
        for target, spec in self.history['releases'].items():
            project, release = target.split('/')
            pkg = lc.write_project(pathlib.Path(self.box.base) / 'src' / f'{project}-{release}', project, release, spec)
            res = self.incarnation().call('publish', {'package': str(pkg.path)})
            if not res.ok:
                raise base.HarnessError(f'publish failed: {res.value}')
            self.model[target] = []

    # -- oracle ------------------------------------------------------------------------------
    def persistent(self, target: str) -> list[str]:
        return lc.spec_names(self.history['releases'][target], ('S', 'R'))

    def transformers(self, target: str) -> list[str]:
        """Stateful actors that sit in the project's source transform."""
        return [el[1] for el in self.history['releases'][target] if el[0] == 'X']

    def check_load(self, where: str, target: str, generation: int, result: dict, mode: str, hp=None,
                   expected: typing.Optional[dict] = None, skip_sigs: typing.Collection[str] = ()) -> None:
        hp = self.hp if hp is None else hp
        expected = expected or self.model[target][generation - 1]
        persistent = set(self.persistent(target))
        seen = collections.Counter()
        sigs: dict = {}
        for rec in result['log']:
            if rec.get('event') != 'apply' or rec['actor'] not in persistent:
                continue
            name = rec['actor']
            seen[name] += 1
            state = rec['state']
            if state is None:
                raise base.Violation('no-state', f'{where}: actor {name} was applied without any state '
                                                 f'(generation {generation} holds {expected[name]})', mode=mode)
            if state['name'] != name:
                raise base.Violation('foreign-state', f'{where}: actor {name} received the state of actor '
                                                      f'{state["name"]} (chain {state["chain"]})', mode=mode)
            sigs.setdefault(name, set()).add(json.dumps(state.get('sig')))
            if state['chain'] != expected[name]:
                raise base.Violation('wrong-generation-state', f'{where}: actor {name} received training chain '
                                                               f'{state["chain"]}, generation {generation} holds '
                                                               f'{expected[name]}', mode=mode)
            want_hp = hp * 100 + ord(name[0])
            if rec['hp'] != want_hp:
                raise base.Violation('stale-hyperparameters', f'{where}: actor {name} ran with hp={rec["hp"]}, the '
                                                              f'current code says {want_hp} (trained with '
                                                              f'{state["hp_trained"]})', mode=mode)
        missing = persistent - set(seen)
        if missing:
            raise base.Violation('actor-not-run', f'{where}: stateful actors {sorted(missing)} never ran', mode=mode)
        # copies of one actor (a scope expanded twice) are told apart by the data-dependent signature in their state:
        # the set of signatures per actor name must be the one seen when that generation was trained
        key = (target, generation)
        if mode == 'train':
            self.sigs[key] = {n: sorted(v) for n, v in sigs.items()}
        elif key in self.sigs:
            got = {n: sorted(v) for n, v in sigs.items() if n not in skip_sigs}
            want = {n: v for n, v in self.sigs[key].items() if n not in skip_sigs}
            if got != want:
                name = next(n for n in got if got[n] != want.get(n))
                raise base.Violation('foreign-state', f'{where}: the copies of actor {name} received states with '
                                                      f'signatures {got[name]}, the training of generation {generation} '
                                                      f'produced {self.sigs[key].get(name)} (a state of another copy)',
                                     mode=mode)
        if result['nstates'] != len(self.model[target][0].get('__nstates__', [None] * result['nstates'])):
            pass

    def check_train(self, where: str, target: str, result: dict, token: int, hp=None, previous=None) -> dict:
        hp = self.hp if hp is None else hp
        if previous is None:
            previous = self.model[target][-1] if self.model[target] else {}
        persistent = set(self.persistent(target))
        trainonly = set(lc.spec_names(self.history['releases'][target], ('T',)))
        new: dict = {}
        for rec in result['log']:
            if rec.get('event') != 'train':
                continue
            name = rec['actor']
            want_prev = previous.get(name, []) if name in persistent else []
            if rec['prev'] != want_prev:
                klass = 'foreign-state' if name in persistent else 'unexpected-state'
                raise base.Violation(klass, f'{where}: actor {name} was re-trained on top of chain {rec["prev"]}, its '
                                            f'own previous state is {want_prev}', mode='train')
            if rec['tokens'] != [token]:
                raise base.Violation('wrong-data', f'{where}: actor {name} trained on tokens {rec["tokens"]}', mode='train')
            want_hp = hp * 100 + ord(name[0])
            if rec['hp'] != want_hp:
                raise base.Violation('stale-hyperparameters', f'{where}: actor {name} trained with hp={rec["hp"]}, the '
                                                              f'current code says {want_hp}', mode='train')
            if name in persistent:
                new[name] = want_prev + [token]
        missing = (persistent | trainonly) - {r['actor'] for r in result['log'] if r.get('event') == 'train'}
        if missing:
            raise base.Violation('actor-not-run', f'{where}: stateful actors {sorted(missing)} were not trained',
                                 mode='train')
        return new

    # -- steps -------------------------------------------------------------------------------
    def step(self, idx: int, op: dict) -> None:
        kind = op['op']
        self.trace.append(op)
        if kind == 'restart':
            if self.child:
                self.child.close()
                self.child = None
            self.stats['restarts'] += 1
            return
        target = op['target']
        project, release = target.split('/')
        if kind == 'train':
            self.ntok += 1
            token = self.ntok
            args = {'project': project, 'release': release, 'token': token}
            where = f'op{idx} train {target} (token {token}, incarnation {self.nchild})'
            crash = None
            if op.get('crash') is not None:
                snap = self.box.snapshot()
                dry = boxmod.Child(self.box.root, OPTABLE, self.seed * 7 + idx, env={'LC_LOG': self.logfile,
                                                                                      'LC_HP': '0'})
                res = dry.call('train', args)
                dry.close()
                self.box.restore(snap)
                self.box.drop(snap)
                if res.ok and res.oplog:
                    crash = {'at': min(len(res.oplog) + 1, 1 + int(op['crash'] * (len(res.oplog) + 1))), 'cut': None}
                    if op.get('error'):
                        crash.update(at=min(crash['at'], len(res.oplog)), cut=0, error=True)
            child = self.incarnation()
            pause = None
            if crash is None and op.get('interleave') is not None and self.model[target]:
                pause = {'at': 1 + int(op['interleave'] * self.nstates.get(target, 1)), 'match': ['.bin']}
            res = child.call('train', args, crash, pause)
            if res.status == 'paused':
                # a rival trainer (another process) commits while this incremental training sits between two loads of
                # its previous states: it must still continue from ONE generation
                self.stats['fault:rival-training-committed-between-state-loads'] += 1
                self.ntok += 1
                rival_token, rival_hp = self.ntok, 70 + idx
                with boxmod.Child(self.box.root, OPTABLE, self.seed * 73 + idx,
                                  env={'LC_LOG': self.logfile + '.other', 'LC_HP': str(rival_hp)}) as other:
                    rres = other.call('train', {'project': project, 'release': release, 'token': rival_token})
                rwhere = f'{where} [rival training, token {rival_token}]'
                if not rres.ok:
                    raise base.Violation('action-failed', f'{rwhere}: {rres.value}', mode='train')
                self.model[target].append(self.check_train(rwhere, target, rres.value, rival_token, hp=rival_hp))
                res = child.resume()
                where += ' [a rival training committed between its state loads]'
                if not res.ok:
                    raise base.Violation('action-failed', f'{where}: {res.value}', mode='train')
                verdict = None
                for base_gen in (len(self.model[target]) - 1, len(self.model[target])):  # continued from g or from g+1
                    saved = self.model[target]
                    self.model[target] = saved[:base_gen]
                    try:
                        new = self.check_train(where, target, res.value, token)
                        self.model[target] = saved + [new]
                        verdict = None
                        break
                    except base.Violation as err:
                        self.model[target] = saved
                        verdict = verdict or err
                if verdict is not None:
                    prevs = {r['actor']: r['prev'] for r in res.value['log'] if r.get('event') == 'train'}
                    raise base.Violation('mixed-generations', f'{where}: the re-trained actors continued from states of '
                                                              f'different generations: {prevs}', mode='train')
                if res.value['generation'] != len(self.model[target]):
                    raise base.Violation('generation-number', f'{where}: committed generation {res.value["generation"]}, '
                                                              f'expected {len(self.model[target])}', mode='train')
                self.nstates[target] = res.value['nstates']
                self.stats['op:train'] += 1
                return
            failed_alive = bool(crash and crash.get('error') and res.status == 'exc')
            if failed_alive and os.path.exists(self.logfile):
                os.unlink(self.logfile)  # what the actors logged before the training failed is not judged
            if res.status == 'crashed' or failed_alive:
                if failed_alive:
                    self.stats['fault:io-error-during-train'] += 1  # the process (and its caches) lives on
                else:
                    self.child = None
                    self.stats['fault:death-during-train'] += 1
                gens = boxmod.Child(self.box.root, OPTABLE, self.seed * 13 + idx, env={'LC_LOG': self.logfile})
                listing = gens.call('generations', {'project': project, 'release': release})
                gens.close()
                ngen = len(self.model[target])
                if listing.value == list(range(1, ngen + 2)):
                    # the commit completed before the death: the new generation must hold this run's states
                    previous = self.model[target][-1] if self.model[target] else {}
                    self.model[target].append({n: previous.get(n, []) + [token] for n in self.persistent(target)})
                    self.stats['settled:after'] += 1
                elif listing.value == list(range(1, ngen + 1)):
                    self.stats['settled:before'] += 1
                else:
                    raise base.Violation('registry-torn', f'{where}: generations after the crash: {listing.value}',
                                         mode='train')
                return
            if not res.ok:
                raise base.Violation('action-failed', f'{where}: {res.value}', mode='train')
            new = self.check_train(where, target, res.value, token)
            if res.value['generation'] != len(self.model[target]) + 1:
                raise base.Violation('generation-number', f'{where}: committed generation {res.value["generation"]}',
                                     mode='train')
            self.model[target].append(new)
            self.nstates[target] = res.value['nstates']
            self.check_load(where + ' [train-mode apply]', target, len(self.model[target]), res.value, 'train')
            self.stats['op:train'] += 1
            self.events.append([kind, target, res.value['generation'], res.value['nstates']])
            return
        if kind in ('duel', 'session') and self.transformers(target):
            # the listed finding 'perftrack-retrains-source-transform' is judged (exactly) on plain perftrack actions
            op = {**op, **({'mode': 'apply'} if op.get('mode') == 'perftrack' else {}),
                  **({'then': 'apply'} if op.get('then') == 'perftrack' else {})}
        if kind == 'duel':
            self.duel(idx, op, target, project, release)
            return
        gens = self.model[target]
        if not gens:
            return
        if kind == 'session':
            # one instance pinned to an explicit generation serves two actions in a row: an incremental training (which
            # commits a new generation) and then a load - which still is a load of the pinned generation
            generation = 1 + op['gen'] % len(gens)
            self.ntok += 1
            token = self.ntok
            where = (f'op{idx} session on ONE instance of {target} pinned to generation {generation}: train (token '
                     f'{token}) then {op["then"]} (incarnation {self.nchild + (0 if self.child and self.child.alive else 1)})')
            res = self.incarnation().call('session', {'project': project, 'release': release, 'generation': generation,
                                                      'token': token, 'then': op['then'], 'token2': 900 + idx})
            if not res.ok:
                raise base.Violation('action-failed', f'{where}: {res.value}', mode='train')
            new = self.check_train(where, target, res.value['train'], token, previous=gens[generation - 1])
            if res.value['train']['generation'] != len(gens) + 1:
                raise base.Violation('generation-number', f'{where}: committed generation '
                                                          f'{res.value["train"]["generation"]}', mode='train')
            self.model[target].append(new)
            self.nstates[target] = res.value['train']['nstates']
            self.check_load(where + ' [train-mode apply]', target, len(self.model[target]), res.value['train'], 'train')
            mode = 'apply' if op['then'] == 'apply' else 'perftrack'
            try:
                if res.value['load']['generation'] != generation:
                    raise base.Violation('wrong-generation', f'{where}: the second action loaded generation '
                                                             f'{res.value["load"]["generation"]}', mode=mode)
                self.check_load(where + ' [second action]', target, generation, res.value['load'], mode)
            except base.Violation as err:
                vio = {**err.as_dict(), 'unanchored': lc.unanchored(self.history['releases'][target])}
                finding = match_finding(vio, self.findings)
                if finding is None:
                    raise
                self.known.setdefault(finding['id'], err.detail)
                self.stats[f'known:{finding["id"]}'] += 1
                return
            self.stats['op:session'] += 1
            self.events.append([kind, target, generation, res.value['load']['nstates']])
            return
        if op.get('ghost'):
            # an explicit generation that was never committed: the action must be refused, never run the actors bare
            ghost = len(gens) + 1 + (op['gen'] or 0) % 3
            res = self.incarnation().call(kind, {'project': project, 'release': release, 'generation': ghost,
                                                 'token': 900 + idx})
            self.stats['fault:nonexistent-generation-requested'] += 1
            leftover = []
            if os.path.exists(self.logfile):  # what the actors logged before the action (possibly) failed
                with open(self.logfile, encoding='utf-8') as handle:
                    leftover = [json.loads(line) for line in handle if line.strip()]
                os.unlink(self.logfile)
            records = (res.value['log'] if res.ok else []) + leftover
            bare = [r['actor'] for r in records if r.get('event') == 'apply' and r.get('state') is None
                    and r['actor'] in set(self.persistent(target))]
            if res.ok or bare:
                raise base.Violation('no-state', f'op{idx} {kind} {target} generation {ghost} (never committed; '
                                                 f'{len(gens)} exist): the action {"ran" if res.ok else "failed late"}, '
                                                 f'actors {sorted(set(bare))} were applied without any state', mode=kind)
            return
        generation = len(gens) if op['gen'] is None else 1 + op['gen'] % len(gens)
        args = {'project': project, 'release': release, 'generation': None if op['gen'] is None else generation,
                'token': 900 + idx}
        where = (f'op{idx} {kind} {target} generation {"latest=" if op["gen"] is None else ""}{generation} '
                 f'(incarnation {self.nchild + (0 if self.child and self.child.alive else 1)})')
        pause = None
        interleaved = False
        if op.get('interleave') is not None:
            nstates = self.nstates.get(target, 1)
            pause = {'at': 1 + int(op['interleave'] * nstates), 'match': ['.bin']}
        if kind == 'perftrack' and self.transformers(target):
            self.perftrack_with_source_transform(idx, op, target, generation, args, where)
            return
        child = self.incarnation()
        fault = None
        if op.get('readerr') is not None and pause is None:
            span = {'.bin': self.nstates.get(target, 1), '.toml': 3}.get((op['rmatch'] or [''])[0], 12)
            fault = {'read_error': 1 + int(op['readerr'] * span), 'read_match': op['rmatch']}
        res = child.call(kind, args, fault, pause)
        if fault and any(e[1] == 'io-error-in-read' for e in res.oplog or []):
            # a file of the registry could not be opened (once): the action may fail - or cope - but it never runs a
            # persistent actor bare or on something else instead; the process lives on and serves the next action
            self.stats['fault:io-error-in-read'] += 1
            where += ' [one registry file failed to open with EIO]'
            if not res.ok:
                leftover = []
                if os.path.exists(self.logfile):
                    with open(self.logfile, encoding='utf-8') as handle:
                        leftover = [json.loads(line) for line in handle if line.strip()]
                    os.unlink(self.logfile)
                bare = [r['actor'] for r in leftover if r.get('event') == 'apply' and r.get('state') is None
                        and r['actor'] in set(self.persistent(target))]
                if bare:
                    raise base.Violation('no-state', f'{where}: the action failed ({res.value}) after actors '
                                                     f'{sorted(set(bare))} had been applied without any state', mode=kind)
                self.stats['io-error-in-read:action-failed'] += 1
                return
            self.stats['io-error-in-read:action-coped'] += 1
        if res.status == 'paused':
            # while this process sits between two of its state loads, another process trains and commits
            self.stats['fault:training-committed-between-state-loads'] += 1
            self.ntok += 1
            token = self.ntok
            other_hp = 50 + idx
            with boxmod.Child(self.box.root, OPTABLE, self.seed * 71 + idx,
                              env={'LC_LOG': self.logfile + '.other', 'LC_HP': str(other_hp)}) as other:
                tres = other.call('train', {'project': project, 'release': release, 'token': token})
            twhere = f'{where} [concurrent training by another process, token {token}]'
            if not tres.ok:
                raise base.Violation('action-failed', f'{twhere}: {tres.value}', mode='train')
            new = self.check_train(twhere, target, tres.value, token, hp=other_hp)
            self.model[target].append(new)
            res = child.resume()
            where += f' [a training committed generation {len(self.model[target])} between its state loads]'
            interleaved = True
        try:
            if not res.ok:
                raise base.Violation('action-failed', f'{where}: {res.value}', mode=kind)
            if interleaved and op['gen'] is None:
                # "latest" may legitimately resolve before or after the concurrent commit - but to ONE generation for
                # every actor of the action (what the action reports afterwards is not what counts: what was loaded is)
                verdicts = {}
                for cand in (generation, generation + 1):
                    try:
                        self.check_load(where, target, cand, res.value, kind)
                        verdicts[cand] = None
                        break
                    except base.Violation as err:
                        verdicts[cand] = err
                if all(v is not None for v in verdicts.values()):
                    per_actor = {}
                    for rec in res.value['log']:
                        if rec.get('event') == 'apply' and rec.get('state') and rec['actor'] in set(self.persistent(target)):
                            for cand in (generation, generation + 1):
                                if rec['state']['chain'] == self.model[target][cand - 1].get(rec['actor']):
                                    per_actor.setdefault(rec['actor'], set()).add(cand)
                    gens_seen = set().union(*per_actor.values()) if per_actor else set()
                    if len(gens_seen) > 1 and all(per_actor.values()):
                        raise base.Violation('mixed-generations', f'{where}: the actors of ONE action received states of '
                                                                  f'different generations: {({a: sorted(g) for a, g in per_actor.items()})}',
                                             mode=kind)
                    raise verdicts[generation]
            else:
                if res.value['generation'] != generation:
                    raise base.Violation('wrong-generation', f'{where}: loaded generation {res.value["generation"]}',
                                         mode=kind)
                self.check_load(where, target, generation, res.value, kind)
        except base.Violation as err:
            # a listed finding does not end the history: loading actions change nothing, the model stays in sync
            vio = {**err.as_dict(), 'unanchored': lc.unanchored(self.history['releases'][target])}
            finding = match_finding(vio, self.findings)
            if finding is None:
                raise
            self.known.setdefault(finding['id'], err.detail)
            self.stats[f'known:{finding["id"]}'] += 1
            return
        self.stats[f'op:{kind}'] += 1
        self.events.append([kind, target, generation, res.value['nstates']])

    def perftrack_with_source_transform(self, idx: int, op: dict, target: str, generation: int, args: dict,
                                        where: str) -> None:
        """Listed finding 'perftrack-retrains-source-transform': the evaluation runs the TRAIN path of the source
        transform - its stateful actors are re-trained on the evaluation data on top of their loaded states. When
        they are the only persistent actors that is committed as a new generation; with persistent actors in the
        pipeline as well the commit is refused (number of states) and the evaluation fails. Judged exactly: what is
        neither the correct behaviour nor precisely this one is a VIOLATION."""
        project, release = target.split('/')
        token = args['token']
        where += ' [stateful source transform]'
        res = self.incarnation().call('perftrack', args)
        loaded = self.model[target][generation - 1]
        xnames = self.transformers(target)
        listed = 'perftrack-retrains-source-transform' in {f['id'] for f in self.findings}
        gens = boxmod.Child(self.box.root, OPTABLE, self.seed * 17 + idx, env={'LC_LOG': self.logfile + '.probe'})
        listing = gens.call('generations', {'project': project, 'release': release}).value
        gens.close()
        ngen = len(self.model[target])
        if res.ok:
            try:  # the correct behaviour first
                if listing != list(range(1, ngen + 1)):
                    raise base.Violation('evaluation-committed-a-generation', f'{where}: generations afterwards: {listing}',
                                         mode='perftrack')
                if res.value['generation'] != generation:
                    raise base.Violation('wrong-generation', f'{where}: loaded generation {res.value["generation"]}',
                                         mode='perftrack')
                self.check_load(where, target, generation, res.value, 'perftrack')
                self.stats['op:perftrack'] += 1
                return
            except base.Violation as err:
                correct = err
            retrained = {**loaded, **{x: loaded[x] + [token] for x in xnames}}
            only_transformers = set(self.persistent(target)) == set(xnames)
            exact = listed and only_transformers and listing == list(range(1, ngen + 2))
            if exact:
                try:
                    self.check_load(where, target, generation, res.value, 'perftrack', expected=retrained,
                                    skip_sigs=xnames)
                    for rec in res.value['log']:
                        if rec.get('event') == 'train' and (rec['actor'] not in xnames or rec['prev'] != loaded[rec['actor']]
                                                            or rec['tokens'] != [token]):
                            raise base.Violation('unexpected-training', f'{where}: {rec}', mode='perftrack')
                except base.Violation:
                    exact = False
            if not exact:
                raise correct
            self.model[target].append(retrained)  # ...and the registry now holds that as its newest generation
            self.known.setdefault('perftrack-retrains-source-transform',
                                  f'{where}: source transform actors {xnames} were re-trained on the evaluation data '
                                  f'(chain {loaded[xnames[0]]} -> {retrained[xnames[0]]}) and generation {ngen + 1} was '
                                  f'committed by an evaluation')
            self.stats['known:perftrack-retrains-source-transform'] += 1
            return
        if os.path.exists(self.logfile):
            os.unlink(self.logfile)
        refused = 'Committed number of states not matching the number of nodes' in str(res.value)
        if (listed and refused and set(self.persistent(target)) != set(xnames)
                and listing == list(range(1, ngen + 1))):
            self.known.setdefault('perftrack-retrains-source-transform',
                                  f'{where}: the evaluation re-trained the source transform actors {xnames} and failed '
                                  f'when it tried to commit them alone ({res.value})')
            self.stats['known:perftrack-retrains-source-transform'] += 1
            return
        raise base.Violation('action-failed', f'{where}: {res.value} (generations afterwards: {listing})', mode='perftrack')

    def duel(self, idx: int, op: dict, target: str, project: str, release: str) -> None:
        """Three processes: trainer T2 is parked inside its commit (generation number N already taken from the
        listing), trainer T1 trains and commits N, a reader starts loading N and is parked between two state loads,
        T2 finishes its commit of the same N, the reader continues. Whatever the registry makes of the two commits,
        the reader's actors must all get the states of ONE training run."""
        gens = self.model[target]
        ngen = len(gens) + 1
        self.ntok += 2
        tok1, tok2 = self.ntok - 1, self.ntok
        hp1, hp2 = 30 + idx, 40 + idx
        prefix = f'registry/{project}/{release}/{ngen}/'
        snap = self.box.snapshot()
        dry = boxmod.Child(self.box.root, OPTABLE, self.seed * 7 + idx, env={'LC_LOG': self.logfile + '.dry', 'LC_HP': '0'})
        res = dry.call('train', {'project': project, 'release': release, 'token': tok2})
        dry.close()
        self.box.restore(snap)
        self.box.drop(snap)
        first = next((o[0] for o in (res.oplog or []) if str(o[2]).startswith(prefix) or str(o[2]) + '/' == prefix), None)
        if not res.ok or first is None:
            return
        where = (f'op{idx} duel on {target}: T2 (token {tok2}) parked inside its commit of generation {ngen}, T1 (token '
                 f'{tok1}) commits {ngen}, a reader ({op["mode"]}) parked between two state loads, T2 commits, reader goes on')
        t2 = boxmod.Child(self.box.root, OPTABLE, self.seed * 79 + idx, env={'LC_LOG': self.logfile + '.t2', 'LC_HP': str(hp2)})
        reader = None
        try:
            r2 = t2.call('train', {'project': project, 'release': release, 'token': tok2}, None,
                         {'on': 'mutation', 'at': first})
            if r2.status != 'paused':
                return
            with boxmod.Child(self.box.root, OPTABLE, self.seed * 83 + idx,
                              env={'LC_LOG': self.logfile + '.t1', 'LC_HP': str(hp1)}) as t1:
                r1 = t1.call('train', {'project': project, 'release': release, 'token': tok1})
            if not r1.ok:
                raise base.Violation('action-failed', f'{where}: T1: {r1.value}', mode='train')
            new1 = self.check_train(where + ' [T1]', target, r1.value, tok1, hp=hp1)
            nstates = r1.value['nstates']
            hp_reader = 60 + idx
            reader = boxmod.Child(self.box.root, OPTABLE, self.seed * 89 + idx,
                                  env={'LC_LOG': self.logfile + '.rd', 'LC_HP': str(hp_reader)})
            rr = reader.call(op['mode'], {'project': project, 'release': release,
                                          'generation': ngen if op['explicit'] else None, 'token': 900 + idx}, None,
                             {'at': 1 + int(op['at'] * nstates), 'match': ['.bin']})
            parked = rr.status == 'paused'
            r2 = t2.resume()
            if not r2.ok:
                raise base.Violation('action-failed', f'{where}: T2: {r2.value}', mode='train')
            new2 = self.check_train(where + ' [T2]', target, r2.value, tok2, hp=hp2)
            if parked:
                rr = reader.resume()
            self.stats['fault:generation-committed-twice-under-a-parked-reader'] += 1 if parked else 0
            if not rr.ok:
                raise base.Violation('action-failed', f'{where}: reader: {rr.value}', mode=op['mode'])
            # the registry's listing decides what generation N (and possibly N+1) now is
            probe = boxmod.Child(self.box.root, OPTABLE, self.seed * 97 + idx, env={'LC_LOG': self.logfile})
            listing = probe.call('generations', {'project': project, 'release': release}).value
            probe.close()
            verdicts = []
            for cand in (new1, new2):
                saved = list(gens)
                self.model[target] = saved + [cand]
                saved_sigs = dict(self.sigs)
                self.sigs.pop((target, ngen), None)
                try:
                    self.check_load(where + ' [reader]', target, ngen, rr.value, op['mode'], hp=hp_reader)
                    verdicts.append(None)
                except base.Violation as err:
                    verdicts.append(err)
                finally:
                    self.model[target] = saved
                    self.sigs = saved_sigs
            if all(v is not None for v in verdicts):
                chains = {r['actor']: r['state'] and r['state']['chain'] for r in rr.value['log']
                          if r.get('event') == 'apply' and r['actor'] in set(self.persistent(target))}
                raise base.Violation('mixed-generations', f'{where}: the reader\'s actors received {chains}; T1 trained '
                                                          f'{new1}, T2 trained {new2} - neither run as a whole '
                                                          f'({verdicts[0].detail[-160:]})', mode=op['mode'])
            # continue the history with what is listed: one generation N holding the later commit (T2's) - or two
            if listing == list(range(1, ngen + 1)):
                self.model[target] = list(gens) + [new2]
            elif listing == list(range(1, ngen + 2)):
                self.model[target] = list(gens) + [new1, new2]
            else:
                raise base.Violation('registry-torn', f'{where}: generations afterwards: {listing}', mode='train')
            self.sigs.pop((target, ngen), None)
            self.sigs.pop((target, ngen + 1), None)
            self.nstates[target] = nstates
            self.stats['op:duel'] += 1
        finally:
            t2.close()
            if reader is not None:
                reader.close()

    def run(self) -> None:
        self.setup()
        for idx, op in enumerate(self.history['ops']):
            self.step(idx, op)


def execute(seed: int, history: dict) -> dict:
    run = Run(seed, history)
    out = {'seed': seed, 'violation': None, 'harness': None}
    try:
        try:
            run.run()
        except base.Violation as err:
            out['violation'] = {**err.as_dict(), 'history': {'releases': history['releases'], 'ops': list(run.trace)}}
            target = next((o['target'] for o in reversed(run.trace) if 'target' in o), None)
            out['violation']['unanchored'] = lc.unanchored(history['releases'][target]) if target else []
        except base.HarnessError as err:
            out['harness'] = str(err)
        out['stats'] = dict(run.stats)
        out['known'] = dict(run.known)
        out['digest'] = base.digest(run.events)
        out['nactors'] = max((len(lc.spec_names(s, ('S', 'R', 'T'))) for s in history['releases'].values()), default=0)
    finally:
        run.close()
    return out


def run_seed(seed: int) -> dict:
    history = gen_history(random.Random(seed))
    out = execute(seed, history)
    out['shape'] = base.digest(history['releases'])
    if seed % 40 == 0:
        out['sample'] = {'seed': seed, 'releases': {k: lc.render(v) for k, v in history['releases'].items()},
                         'ops': history['ops']}
    return out


def reproduces(seed: int, history: dict, klass: str) -> typing.Optional[dict]:
    res = execute(seed, history)
    vio = res.get('violation')
    return vio if vio and vio['class'] == klass else None


def shrink_spec(spec: list) -> typing.Iterator[list]:
    """Simpler pipelines: drop an element, replace a branch by one of its sides."""
    for i, el in enumerate(spec):
        if len(spec) > 1:
            yield spec[:i] + spec[i + 1:]
        if el[0] == 'B':
            yield spec[:i] + el[1] + spec[i + 1:]
            yield spec[:i] + el[2] + spec[i + 1:]
            for sub in shrink_spec(el[1]):
                yield spec[:i] + [['B', sub, el[2]]] + spec[i + 1:]
            for sub in shrink_spec(el[2]):
                yield spec[:i] + [['B', el[1], sub]] + spec[i + 1:]
        if el[0] == 'R' and len(el[1]) > 1:
            yield spec[:i] + [['R', el[1][:1]]] + spec[i + 1:]


def minimise(seed: int, history: dict, klass: str, budget: int = 60) -> dict:
    tests = [0]

    def fails(cand: dict) -> bool:
        if tests[0] >= budget:
            return False
        tests[0] += 1
        return reproduces(seed, cand, klass) is not None

    best = copy.deepcopy(history)
    # keep only the releases that ops refer to
    last_target = next((o['target'] for o in reversed(best['ops']) if 'target' in o), None)
    if last_target:
        cand = {'releases': {last_target: best['releases'][last_target]},
                'ops': [o for o in best['ops'] if o.get('target', last_target) == last_target]}
        if fails(cand):
            best = cand
    ops = base.ddmin(best['ops'], lambda sub: fails({**best, 'ops': sub}), max_tests=25)
    if fails({**best, 'ops': ops}):
        best = {**best, 'ops': ops}
    improved = True
    while improved and tests[0] < budget:
        improved = False
        for target, spec in list(best['releases'].items()):
            for cand_spec in shrink_spec(spec):
                if not lc.spec_names(cand_spec, ('S', 'R')):
                    continue
                cand = {**best, 'releases': {**best['releases'], target: cand_spec}}
                if fails(cand):
                    best, improved = cand, True
                    break
            if improved:
                break
    return best


def match_finding(vio: dict, findings: list[dict]) -> typing.Optional[dict]:
    for finding in findings:
        sig = finding.get('signature', {})
        if sig.get('class') and sig['class'] != vio['class']:
            continue
        if sig.get('mode') and sig['mode'] != vio.get('mode'):
            continue
        if sig.get('classes') and vio['class'] not in sig['classes']:
            continue
        if sig.get('needs_unanchored') and not vio.get('unanchored'):
            continue
        if sig.get('detail_contains') and not all(x in vio['detail'] for x in sig['detail_contains']):
            continue
        return finding
    return None


def run_seed_isolated(job) -> dict:
    """One history = one process tree grown from the worker's frozen zygote image: what the worker ran before (and so
    the object addresses its children would inherit) has no say in this history."""
    from detsim import runner as runmod  # pylint: disable=import-outside-toplevel

    try:
        return runmod.fork_run(run_seed, job, real_timeout=560)
    except runmod.RunFailed as err:
        raise base.HarnessError(str(err)[:1500]) from None


def main(argv: list[str]) -> int:
    import argparse  # pylint: disable=import-outside-toplevel

    parser = argparse.ArgumentParser(prog='check.py C04')
    parser.add_argument('--tier', default=None)
    parser.add_argument('--replay', default=None)
    parser.add_argument('--seeds', type=int, default=None)
    parser.add_argument('--budget', type=float, default=None)
    args = parser.parse_args(argv)
    import logging  # pylint: disable=import-outside-toplevel

    logging.disable(logging.CRITICAL)
    import checks.c04_ops  # noqa: F401 pylint: disable=import-outside-toplevel,unused-import

    if args.replay:
        doc = json.loads(pathlib.Path(args.replay).read_text())
        got = reproduces(doc['seed'], doc['history'], doc['violation']['class'])
        print(f'replay seed={doc["seed"]} expected={doc["violation"]["class"]} got={got and got["class"]}')
        if got:
            print(f'VIOLATION property={PROP} replay={args.replay}')
            print(f'  {got["detail"]}')
            return base.EXIT_VIOLATION
        return base.EXIT_OK
    tier = base.tier(args.tier)
    seed0 = base.base_seed()
    nseeds = args.seeds or (400 if tier == 'quick' else 30000)
    budget = args.budget or (45 if tier == 'quick' else 1500)
    print(f'{PROP} seed={seed0} tier={tier} seeds<={nseeds} budget={budget}s')
    base.clean_replays(PROP)
    start = time.monotonic()
    jobs = [seed0 * 10000 + i for i in range(nseeds)]
    results, errors, exhausted = base.sweep(run_seed_isolated, jobs, budget, per_item_limit_s=600)
    base.emit_digests(results)
    findings = base.open_findings(PROP)
    stats: collections.Counter = collections.Counter()
    digests, shapes, samples = set(), set(), []
    known, reported = {}, {}
    counts: collections.Counter = collections.Counter()
    for res in results:
        if res.get('harness'):
            errors.append(f'seed {res["seed"]}: {res["harness"]}')
            continue
        stats.update(res.get('stats', {}))
        digests.add(res['digest'])
        shapes.add(res['shape'])
        if res.get('sample') and len(samples) < 3:
            samples.append(res['sample'])
        for fid, detail in res.get('known', {}).items():
            counts[fid] += res['stats'].get(f'known:{fid}', 1)
            known.setdefault(fid, (res['seed'], {'detail': detail}))
        vio = res['violation']
        if vio:
            finding = match_finding(vio, findings)
            if finding:
                counts[finding['id']] += 1
                known.setdefault(finding['id'], (res['seed'], vio))
            else:
                reported.setdefault((vio['class'], vio.get('mode')), (res['seed'], vio))
    for fid, (seed, vio) in sorted(known.items()):
        print(f'KNOWN-FINDING: property={PROP} {fid}: seed {seed}: {vio["detail"][:240]} [{counts[fid]} histories]')
    nviol = 0
    for (klass, mode), (seed, vio) in sorted(reported.items(), key=str):
        history = minimise(seed, vio['history'], klass)
        got = reproduces(seed, history, klass) or vio
        path = base.write_replay(PROP, f'{seed}-{nviol}', {
            'property': PROP, 'seed': seed, 'tier': tier, 'engine': 'B', 'history': history,
            'ops': history['ops'], 'pipelines': {k: lc.render(v) for k, v in history['releases'].items()},
            'schedule': None, 'violation': {'class': klass, 'mode': mode, 'detail': got['detail']}})
        print(f'VIOLATION property={PROP} replay={path}')
        print(f'  class={klass} mode={mode}: {got["detail"][:300]}')
        print(f'  pipelines={ {k: "source transform " + str([e[1] for e in v if e[0] == "X"]) + " >> " + lc.render(v) for k, v in history["releases"].items()} } ops={len(history["ops"])}')
        nviol += 1
    wall = time.monotonic() - start
    nruns = len([r for r in results if not r.get('harness')])
    coverage = {
        'evaluations': nruns,
        'distinct_nontrivial': len(digests),
        'rule': 'one evaluation = one seeded history (4-10 lifecycle actions + restarts + process deaths during train) over '
                '1-4 generated project releases executed by real forml code in forked process incarnations; every state '
                'logged by every stateful actor is judged; distinct = distinct (action, release, generation, #states) '
                'event sequences; non-trivial = every history has >= 1 stateful actor and >= 1 action that loads states',
        'samples': samples,
        'distinct_pipeline_sets': len(shapes),
        'actions': {k[3:]: v for k, v in stats.items() if k.startswith('op:')},
        'fault_kinds_fired': {k[6:]: v for k, v in stats.items() if k.startswith('fault:')},
        'io_error_in_read_outcomes': {k[17:]: v for k, v in stats.items() if k.startswith('io-error-in-read:')},
        'settled': {k[8:]: v for k, v in stats.items() if k.startswith('settled:')},
        'incarnations': stats.get('incarnations', 0), 'restarts': stats.get('restarts', 0),
        'runs_per_hour': round(nruns / wall * 3600) if wall else 0,
        'real_components': ['runtime.Runner.train/apply/eval_perftrack (Dask runner, synchronous)', 'pyfunc.Runner.call',
                            'flow.Composition/compile', 'evaluation.PerfTrackScore', 'asset.*', 'posix.Registry',
                            'project package publish/mount/import of generated projects'],
        'stubbed_components': ['feed (rows carry the run token)', 'sink (logs)', 'actors (symbolic, log what they see)'],
        'sweep_completed': exhausted, 'harness_errors': len(errors),
    }
    base.write_evidence(PROP, tier, seed0, 'exploration', coverage, wall, nviol, [
        'oracle is by actor name: a slip between two copies of the same actor (a scope expanded twice) is invisible',
        'Dask runner with the synchronous scheduler (schedule independence is C02)',
        'process death = SIGKILL with surviving page cache'])
    print(f'{PROP}: histories={nruns} distinct={len(digests)} violations={nviol} known={len(known)} '
          f'harness_errors={len(errors)} wall={wall:.1f}s actions={coverage["actions"]}')
    for err in errors[:5]:
        print('HARNESS-ERROR:', err[:600], file=sys.stderr)
    if nviol:
        return base.EXIT_VIOLATION
    return base.EXIT_HARNESS if errors else base.EXIT_OK
