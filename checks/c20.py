"""C20 - Configuration layering and provider lookup are deterministic (claimed in part; DESIGN.md 3, C20).

Two halves, one run each per seed:

* **provider lookup** (Engine A): a generated package universe on disk; lookups / explicit imports / listings
  issued from 1-3 kernel tasks, pre-empted at opcode level inside ``forml/provider/__init__.py``; the order
  in which ``Bank.get`` walks its *set* of search paths (in reality: the string hash, i.e. PYTHONHASHSEED)
  is a per-run ranking drawn from the seed. Every case runs under three (order, schedule) draws and is
  judged against an independent model of "who registers what, reachable from where".
* **configuration layering**: 1-4 generated TOML sources over defaults, each with a fate injected at the
  file seam (ok / missing / unreadable / torn at a seeded offset / garbage), keyword updates, section
  resolution; judged against a reference deep merge of exactly the sources that were readable and valid.
"""
import collections
import json
import logging
import os
import pathlib
import random
import shutil
import sys
import tempfile
import time
import typing

from detsim import kernel as kmod
from detsim import runner as runmod
from vlib import base

PROP = 'C20'
PKG = 'c20u'
ALIASES = ['foo', 'bar', 'baz', 'qux', 'zed']
KNOWN_LAZY = 'colliding-reference-first-import-wins'
TRACE = ('forml/provider/__init__.py',)


# ------------------------------------------------------------------------------------------------
# universe generation (pure functions of the seed)
# ------------------------------------------------------------------------------------------------
def gen_universe(rng: random.Random, collisions: bool) -> dict:
    nif = rng.choice([1, 1, 2])
    ifaces = []
    modules: dict[str, list] = collections.OrderedDict()
    pool = [f'{PKG}.p{i}' for i in range(3)]
    for i in range(nif):
        paths = sorted(rng.sample(pool, rng.randint(1, 3)))
        ifaces.append({'name': f'Iface{i}', 'paths': paths, 'default': None})
    for path in pool:
        modules[path] = []
    for k in range(rng.randint(0, 2)):
        modules[f'{PKG}.x{k}'] = []
    # alias sub-modules (<search path>.<alias>): found by the alias-specific search path
    for path in pool:
        for alias in rng.sample(ALIASES, rng.randint(0, 2)):
            modules[f'{path}.{alias}'] = []
    names = list(modules)
    used: dict[int, set] = {i: set() for i in range(nif)}
    counter = 0
    mids: list[tuple[str, str, int]] = []  # (module, name, iface)
    for _ in range(rng.randint(2, 9)):
        module = rng.choice(names)
        iface = rng.randrange(nif)
        counter += 1
        kind = rng.choices(['concrete', 'abstract'], [5, 1])[0]
        basecls = None
        if mids and rng.random() < 0.35:
            # import dependencies only point at modules earlier in the list (no import cycles)
            cand = [m for m in mids if m[2] == iface and (m[0] == module or names.index(m[0]) < names.index(module))]
            if cand:
                bmod, bname, _ = rng.choice(cand)
                basecls = f'{bmod}:{bname}'
        if kind == 'abstract':
            name = f'Mid{counter}'
            modules[module].append({'name': name, 'iface': iface, 'base': basecls, 'abstract': True, 'alias': None})
            mids.append((module, name, iface))
            continue
        alias = None
        if rng.random() < 0.8:
            sub = module.rsplit('.', 1)[1]
            # classes of an alias sub-module usually carry that alias
            alias = sub if sub in ALIASES and rng.random() < 0.8 else rng.choice(ALIASES)
            if alias in used[iface] and not (collisions and rng.random() < 0.6):
                free = [a for a in ALIASES if a not in used[iface]]
                alias = rng.choice(free) if free else None
            if alias:
                used[iface].add(alias)
        modules[module].append({'name': f'Cls{counter}', 'iface': iface, 'base': basecls, 'abstract': False,
                                'alias': alias})
    for i, iface in enumerate(ifaces):
        mine = sorted(used[i])
        if mine and rng.random() < 0.4:
            iface['default'] = rng.choice(mine)
    return {'ifaces': ifaces, 'modules': modules}


def classes(universe: dict) -> list[dict]:
    return [{**c, 'module': m} for m, items in universe['modules'].items() for c in items]


def deps(universe: dict) -> dict[str, set]:
    """module -> modules it imports for sure (base classes; the parent package of a sub-module), transitively."""
    direct: dict[str, set] = {}
    for module, items in universe['modules'].items():
        need = {c['base'].split(':')[0] for c in items if c['base']} - {module}
        parent = module.rsplit('.', 1)[0]
        if parent in universe['modules']:
            need.add(parent)
        direct[module] = need
    closed = {}
    for module in direct:
        seen, todo = set(), [module]
        while todo:
            for nxt in direct.get(todo.pop(), ()):  # pylint: disable=modified-iterating-list
                if nxt not in seen:
                    seen.add(nxt)
                    todo.append(nxt)
        closed[module] = seen
    return closed


def colliding(universe: dict) -> dict[int, set]:
    out: dict[int, set] = collections.defaultdict(set)
    seen: dict[tuple, str] = {}
    for cls in classes(universe):
        if cls['abstract'] or not cls['alias']:
            continue
        key = (cls['iface'], cls['alias'])
        if key in seen:
            out[cls['iface']].add(cls['alias'])
        seen[key] = cls['module']
    return out


def gen_ops(rng: random.Random, universe: dict) -> dict:
    nif = len(universe['ifaces'])
    everything = classes(universe)
    names = list(universe['modules'])

    def one():
        kind = rng.choices(['alias', 'qualified', 'import', 'list', 'default', 'bogus'], [8, 5, 2, 1, 1, 1])[0]
        iface = rng.randrange(nif)
        if kind == 'alias':
            return {'op': 'lookup', 'iface': iface, 'ref': rng.choice(ALIASES + ['nope'])}
        if kind == 'qualified':
            if everything and rng.random() < 0.8:
                cls = rng.choice(everything)
                return {'op': 'lookup', 'iface': iface, 'ref': f'{cls["module"]}:{cls["name"]}'}
            return {'op': 'lookup', 'iface': iface,
                    'ref': rng.choice([f'{PKG}.nowhere:Cls1', f'{rng.choice(names)}:Ghost', f'{PKG}.iface:Iface{iface}'])}
        if kind == 'import':
            return {'op': 'import', 'module': rng.choice(names)}
        if kind == 'list':
            return {'op': 'list', 'iface': iface}
        if kind == 'default':
            return {'op': 'default', 'iface': iface}
        return {'op': 'lookup', 'iface': iface, 'ref': rng.choice(['fo', 'FOO', 'foo ', f'{PKG}.p0'])}

    nthreads = rng.choice([1, 1, 2, 3])
    return {'prelude': [{'op': 'import', 'module': rng.choice(names)} for _ in range(rng.choice([0, 0, 1]))],
            'threads': [[one() for _ in range(rng.randint(1, 6))] for _ in range(nthreads)]}


def gen_cfg(seed: int) -> dict:
    rng = random.Random(seed)
    collisions = rng.random() < 0.4
    universe = gen_universe(rng, collisions)
    return {'seed': seed, 'universe': universe, 'ops': gen_ops(rng, universe),
            'draws': [{'order': rng.getrandbits(32), 'kseed': rng.getrandbits(32)} for _ in range(3)],
            'kernel': {'policy': 'random', 'preempt_p': rng.choice([0.05, 0.2, 0.5]), 'faults': {}, 'max_steps': 300000},
            'config': gen_config_case(rng)}


# ------------------------------------------------------------------------------------------------
# the universe on disk + execution inside a fresh fork
# ------------------------------------------------------------------------------------------------
def write_universe(root: pathlib.Path, universe: dict) -> None:
    top = root / PKG
    top.mkdir(parents=True)
    (top / '__init__.py').write_text('')
    lines = ['import abc', 'from forml import provider', '']
    for iface in universe['ifaces']:
        default = f", default=({iface['default']!r}, {{}})" if iface['default'] else ''
        lines += [f"class {iface['name']}(provider.Service{default}, path={iface['paths']!r}):",
                  '    @abc.abstractmethod', '    def hello(self): ...', '']
    (top / 'iface.py').write_text('\n'.join(lines))
    packages = {m for m in universe['modules'] if any(o.startswith(m + '.') for o in universe['modules'])}
    for module, items in universe['modules'].items():
        src = ['import abc', f'from {PKG} import iface']
        for i, dep in enumerate(sorted({c['base'].split(':')[0] for c in items if c['base']} - {module})):
            src.append(f'import {dep}')
        src.append('')
        for cls in items:
            if cls['base']:
                bmod, bname = cls['base'].split(':')
                parent = bname if bmod == module else f'{bmod}.{bname}'
            else:
                parent = f"iface.{universe['ifaces'][cls['iface']]['name']}"
            kwargs = f", alias={cls['alias']!r}" if cls['alias'] else ''
            src.append(f"class {cls['name']}({parent}{kwargs}):")
            if cls['abstract']:
                src += ['    @abc.abstractmethod', f"    def extra_{cls['name']}(self): ...", '']
                continue
            src.append(f"    def hello(self): return {module + ':' + cls['name']!r}")
            # implement whatever the abstract intermediates up the chain ask for
            chain = cls['base']
            while chain:
                cmod, cname = chain.split(':')
                src.append(f'    def extra_{cname}(self): return None')
                chain = next(c['base'] for c in universe['modules'][cmod] if c['name'] == cname)
            src.append('')
        rel = module.split('.')[1:]
        if module in packages:
            path = top.joinpath(*rel, '__init__.py')
        else:
            path = top.joinpath(*rel[:-1], rel[-1] + '.py')
        path.parent.mkdir(parents=True, exist_ok=True)
        path.write_text('\n'.join(src) + '\n')


def simulate(cfg: dict, root: str, draw: dict, schedule: typing.Optional[list] = None) -> dict:
    """Runs inside a fresh fork: BANK, sys.modules and the import system are process global."""
    import forml  # pylint: disable=import-outside-toplevel
    from forml import provider  # pylint: disable=import-outside-toplevel

    logging.disable(logging.CRITICAL)
    order = draw['order']
    ranks: dict[str, float] = {}

    def rank(value: str) -> float:
        if value not in ranks:
            ranks[value] = random.Random(f'{order}/{value}').random()
        return ranks[value]

    class OrderedPaths(set):
        """The bank's search paths: a set whose (arbitrary but consistent) iteration order the simulator owns."""

        def __iter__(self):
            return iter(sorted(set.__iter__(self), key=lambda p: rank(p.value)))

    provider.Bank.__new__ = lambda cls: tuple.__new__(cls, (dict(), OrderedPaths()))  # pylint: disable=use-dict-literal
    import builtins  # pylint: disable=import-outside-toplevel

    def atomic_import(*args, **kwargs):
        with kmod.atomic():  # the interpreter's import locks are real locks: no parking inside an import
            return builtins.__import__(*args, **kwargs)

    # only the import itself is one step: what Bank.Path.load does before and after it is pre-emptible like the rest
    # of the lookup (the name `__import__` resolves in the module's globals before the builtins)
    provider.__dict__['__import__'] = atomic_import
    sys.path.insert(0, root)
    import importlib  # pylint: disable=import-outside-toplevel

    iface_mod = importlib.import_module(f'{PKG}.iface')
    ifaces = [getattr(iface_mod, i['name']) for i in cfg['universe']['ifaces']]
    kcfg = dict(cfg['kernel'])
    kcfg.update(trace_files=TRACE, keep_log=False)
    if schedule is not None:
        kcfg['schedule'] = list(schedule)
    kernel = kmod.Kernel(draw['kseed'], kcfg)
    outcomes: dict[str, list] = {}

    def describe(cls) -> list:
        import inspect  # pylint: disable=import-outside-toplevel

        return ['class', f'{cls.__module__}:{cls.__qualname__}', bool(inspect.isabstract(cls))]

    def execute(op: dict) -> list:
        try:
            if op['op'] == 'lookup':
                return describe(ifaces[op['iface']][op['ref']])
            if op['op'] == 'default':
                return describe(type(ifaces[op['iface']]()))
            if op['op'] == 'list':
                return ['refs', sorted(repr(r) if not isinstance(r, str) else str(r) for r in ifaces[op['iface']])]
            if op['op'] == 'import':
                with kmod.atomic():
                    importlib.import_module(op['module'])
                return ['imported']
            raise AssertionError(op)
        except forml.MissingError as err:
            return ['error', 'MissingError', str(err)[:160]]
        except forml.UnexpectedError as err:
            return ['error', 'UnexpectedError', str(err)[:160]]
        except Exception as err:  # pylint: disable=broad-except
            import traceback  # pylint: disable=import-outside-toplevel

            frames = traceback.extract_tb(err.__traceback__)
            site = next((f'{os.path.basename(f.filename)}:{f.lineno} {f.name}' for f in reversed(frames)
                         if 'forml' in f.filename), '')
            return ['error', type(err).__name__, f'{str(err)[:120]} [{site}]']

    def client(tid: int):
        def run():
            for op in cfg['ops']['threads'][tid]:
                outcomes[f't{tid}'].append(execute(op))
                kernel.yield_('client.next')

        return run

    def main():
        outcomes['prelude'] = [execute(op) for op in cfg['ops']['prelude']]
        tasks = []
        for tid in range(len(cfg['ops']['threads'])):
            outcomes[f't{tid}'] = []
            tasks.append(kernel.spawn(client(tid), f'lookup{tid}', 'thread'))
        for task in tasks:
            while task.state != kmod.DONE:
                kernel.block(('join', task.tid), None, 'main.join')

    status = 'completed'
    try:
        kernel.run(main)
    except (kmod.Deadlock, kmod.StepBudget) as err:
        status = f'{type(err).__name__}: {err}'
    loaded = sorted(m for m in cfg['universe']['modules'] if m in sys.modules)
    banks = []
    for i, iface in enumerate(ifaces):
        banks.append({str(ref) if isinstance(ref, str) else repr(ref): f'{cls.__module__}:{cls.__qualname__}'
                      for ref, cls in provider.BANK[iface].provider.items()})
    # registration is all or nothing: a provider is registered with every bank up its line (its own, those of the
    # abstract intermediates, the interface's) or - when it was refused for a collision in any of them - with none
    ghosts = []
    for owner, bank in list(provider.BANK.items()):
        if not getattr(owner, '__module__', '').startswith(PKG):
            continue
        for ref, cls in list(bank.provider.items()):
            line = [p for p in cls.__mro__ if issubclass(p, provider.Service) and p is not provider.Service]
            lacking = [f'{p.__module__}:{p.__qualname__}' for p in line
                       if provider.BANK[p].provider.get(provider.Reference(cls)) is not cls]
            if lacking:
                ghosts.append([f'{owner.__module__}:{owner.__qualname__}', str(ref) if isinstance(ref, str) else repr(ref),
                               f'{cls.__module__}:{cls.__qualname__}', lacking])
    return {'outcomes': outcomes, 'status': status, 'loaded': loaded, 'banks': banks, 'ghosts': sorted(ghosts), 'steps': kernel.step,
            'switches': kernel.switches, 'stats': dict(kernel.stats), 'digest': kernel.digest(),
            'decisions': kernel.decisions,
            'path_orders': [[p.value for p in provider.BANK[iface].paths] for iface in ifaces]}


# ------------------------------------------------------------------------------------------------
# the model and the verdict
# ------------------------------------------------------------------------------------------------
def sure_imports(op: dict, universe: dict, closure: dict) -> set:
    """Modules an operation imports whatever the order (only those that matter: not reachable otherwise)."""
    if op['op'] == 'import':
        return {op['module']} | closure[op['module']]
    if op['op'] == 'lookup' and ':' in op['ref']:
        module = op['ref'].split(':')[0]
        if module in universe['modules']:
            return {module} | closure[module]
    return set()


def may_imports(op: dict, universe: dict, closure: dict) -> set:
    """Upper bound: a lookup may walk every search path of its interface (and the alias sub-modules)."""
    out = set(sure_imports(op, universe, closure))
    if op['op'] in ('lookup', 'default'):
        iface = universe['ifaces'][op['iface']]
        refs = [op['ref']] if op['op'] == 'lookup' and ':' not in op.get('ref', ':') else []
        if op['op'] == 'default' and iface['default']:
            refs = [iface['default']]
        for path in iface['paths']:
            for module in [path] + [f'{path}.{r}' for r in refs]:
                if module in universe['modules']:
                    out |= {module} | closure[module]
    return out


def expected(op: dict, universe: dict, sure: set, maybe: set, closure: dict) -> list:
    """Allowed outcomes of one operation in a collision-free universe: list of ['class', id] / ['missing']."""
    iface = universe['ifaces'][op['iface']]
    ref = op['ref'] if op['op'] == 'lookup' else iface['default']
    if op['op'] == 'default' and not ref:
        return [['abstract-instantiation']]
    everything = classes(universe)
    if ':' in ref:
        module, name = ref.split(':', 1)
        hit = [c for c in everything if c['module'] == module and c['name'] == name and c['iface'] == op['iface']
               and not c['abstract']]
        return [['class', ref]] if hit else [['missing']]
    hit = [c for c in everything if c['alias'] == ref and c['iface'] == op['iface'] and not c['abstract']]
    if not hit:
        return [['missing']]
    cls = hit[0]
    ident = f'{cls["module"]}:{cls["name"]}'
    always = set()
    for path in iface['paths']:
        for module in (path, f'{path}.{ref}'):
            if module in universe['modules']:
                always |= {module} | closure[module]
    if cls['module'] in always or cls['module'] in sure:
        return [['class', ident]]
    if cls['module'] in maybe:
        return [['class', ident], ['missing']]
    return [['missing']]


def judge(cfg: dict, result: dict, draw_index: int) -> list[dict]:
    universe = cfg['universe']
    out: list[dict] = []
    if result['status'] != 'completed':
        return [{'class': 'hang', 'detail': result['status'][:200]}]
    closure = deps(universe)
    everything = classes(universe)
    collide = colliding(universe)
    clean = not any(collide.values())
    order = result['path_orders']
    threads = cfg['ops']['threads']
    # which modules may be around when an operation runs
    prelude_sure: set = set()
    for op in cfg['ops']['prelude']:
        prelude_sure |= sure_imports(op, universe, closure)
    all_maybe = set(prelude_sure)
    for ops in threads:
        for op in ops:
            all_maybe |= may_imports(op, universe, closure)
    registered = {}  # (iface, ref) -> set of class ids registering it
    for cls in everything:
        if cls['abstract']:
            continue
        ident = f'{cls["module"]}:{cls["name"]}'
        registered.setdefault((cls['iface'], ident), set()).add(ident)
        if cls['alias']:
            registered.setdefault((cls['iface'], cls['alias']), set()).add(ident)
    for tid, ops in enumerate(threads):
        sure = set(prelude_sure)
        maybe = set(all_maybe) if len(threads) > 1 else set(prelude_sure)
        for idx, (op, got) in enumerate(zip(ops, result['outcomes'][f't{tid}'])):
            where = (f'draw {draw_index} (search path order {order}), thread {tid} op {idx} {json.dumps(op)}: ')
            if op['op'] in ('lookup', 'default'):
                iface = universe['ifaces'][op['iface']]
                ref = op['ref'] if op['op'] == 'lookup' else iface['default']
                if got[0] == 'class':
                    ident = got[1]
                    if got[2]:
                        out.append({'class': 'abstract-returned', 'detail': where + f'returned the abstract {ident}'})
                    elif ref is None or ident not in registered.get((op['iface'], ref), ()):
                        out.append({'class': 'wrong-provider',
                                    'detail': where + f'returned {ident}, which is not registered as {ref!r} for '
                                                      f'{iface["name"]} (registrants: '
                                                      f'{sorted(registered.get((op["iface"], ref), ()))})'})
                    elif ref in collide.get(op['iface'], ()):
                        out.append({'class': 'order-dependent-resolution', 'known_id': KNOWN_LAZY,
                                    'detail': where + f'{ref!r} is registered by '
                                                      f'{sorted(registered[(op["iface"], ref)])}; the lookup silently '
                                                      f'returned {ident} (the first one imported)'})
                elif got[0] == 'error' and got[1] not in ('MissingError', 'UnexpectedError', 'TypeError'):
                    out.append({'class': 'unexpected-exception', 'detail': where + f'{got[1]}: {got[2]}'})
                if clean and ref is not None:
                    allowed = expected(op, universe, sure, maybe, closure)
                    if got[0] == 'class':
                        mine = ['class', got[1]]
                    elif got[0] == 'error' and got[1] == 'MissingError':
                        mine = ['missing']
                    else:
                        mine = got[:2]
                    if mine not in allowed and not any(v['detail'].startswith(where) for v in out):
                        out.append({'class': 'missing-instead-of-provider' if mine == ['missing'] else
                                    'provider-instead-of-missing' if mine[0] == 'class' and allowed == [['missing']]
                                    else 'wrong-outcome',
                                    'detail': where + f'got {got}, the model allows {allowed} (collision-free universe: '
                                                      f'the outcome may not depend on import order or interleaving)'})
            elif op['op'] == 'list':
                if got[0] != 'refs':
                    out.append({'class': 'unexpected-exception', 'detail': where + f'{got}'})
                else:
                    for ref in got[1]:
                        if (op['iface'], ref) not in registered:
                            out.append({'class': 'wrong-provider',
                                        'detail': where + f'lists {ref!r}, which no concrete provider of the interface '
                                                          f'registers'})
            elif op['op'] == 'import':
                if got[0] == 'error' and (clean or got[1] != 'UnexpectedError'):
                    out.append({'class': 'unexpected-exception', 'detail': where + f'{got[1]}: {got[2]}'})
            sure |= sure_imports(op, universe, closure)
            maybe |= may_imports(op, universe, closure)
    # a collision between two completely imported modules must have been refused
    loaded = set(result['loaded'])
    for (iface, ref), idents in registered.items():
        mods = {i.split(':')[0] for i in idents}
        if len(idents) > 1 and mods <= loaded:
            out.append({'class': 'collision-accepted',
                        'detail': f'draw {draw_index}: {sorted(idents)} all register {ref!r} for '
                                  f'{universe["ifaces"][iface]["name"]} and all their modules ended up imported without '
                                  f'a collision error (bank: {result["banks"][iface].get(ref)})'})
    for owner, ref, ident, lacking in result.get('ghosts', []):
        out.append({'class': 'refused-provider-resolvable',
                    'detail': f'draw {draw_index}: {owner}[{ref!r}] resolves to {ident}, which is not registered with '
                              f'{lacking}: its registration was refused there (collision) after it had been accepted here'})
    # what the bank holds must be what the universe says
    for iface, bank in enumerate(result['banks']):
        for ref, ident in bank.items():
            if ident not in registered.get((iface, ref), ()):
                out.append({'class': 'wrong-provider',
                            'detail': f'draw {draw_index}: the bank of {universe["ifaces"][iface]["name"]} maps {ref!r} '
                                      f'to {ident}'})
    return out


# ------------------------------------------------------------------------------------------------
# configuration layering with faults at the file seam
# ------------------------------------------------------------------------------------------------
KEYS = ['A', 'B', 'C', 'path', 'D', 'r1', 'r2', 'params', 'default', 'provider']


def gen_value(rng: random.Random, depth: int):
    kind = rng.choices(['int', 'str', 'bool', 'list', 'table'], [3, 3, 1, 3, 4 if depth < 3 else 0])[0]
    if kind == 'int':
        return rng.randint(-3, 9)
    if kind == 'str':
        return rng.choice(['x', 'y', 'r1', 'r2', 'a "q"', 'pkg.mod:Cls', ''])
    if kind == 'bool':
        return rng.random() < 0.5
    if kind == 'list':
        return rng.sample(['a', 'b', 'c', 'd', 'e'], rng.randint(0, 4))
    return {k: gen_value(rng, depth + 1) for k in rng.sample(KEYS, rng.randint(0, 4))}


def gen_runner_section(rng: random.Random) -> dict:
    sect: dict = {}
    if rng.random() < 0.7:
        sect['default'] = rng.choice(['r1', 'r2', 'r3'])
    for ref in rng.sample(['r1', 'r2'], rng.randint(0, 2)):
        body: dict = {k: rng.randint(0, 5) for k in rng.sample(['a', 'b', 'c'], rng.randint(0, 2))}
        if rng.random() < 0.5:
            body['provider'] = rng.choice(['dask', 'pkg.mod:Cls'])
        if rng.random() < 0.5:
            body['params'] = {k: rng.randint(6, 9) for k in rng.sample(['b', 'c', 'd'], rng.randint(0, 2))}
        sect[ref] = body
    return sect


def gen_config_case(rng: random.Random) -> dict:
    def layer():
        data = {k: gen_value(rng, 1) for k in rng.sample(KEYS[:5], rng.randint(0, 4))}
        if rng.random() < 0.6:
            data['RUNNER'] = gen_runner_section(rng)
        return data

    sources = []
    for _ in range(rng.randint(1, 4)):
        fate = rng.choices(['ok', 'missing', 'unreadable', 'torn', 'garbage'], [10, 2, 2, 3, 1])[0]
        sources.append({'data': layer(), 'fate': fate, 'cut': rng.random()})
    return {'defaults': layer(), 'sources': sources,
            'updates': [{'pos': {k: gen_value(rng, 1) for k in rng.sample(KEYS[:3], rng.randint(0, 2))},
                         'kw': {k: gen_value(rng, 1) for k in rng.sample(KEYS[:3], rng.randint(0, 2))}}
                        for _ in range(rng.randint(0, 2))],
            'resolve': [rng.choice([None, 'r1', 'r2', 'r3']) for _ in range(rng.randint(1, 3))]}


def toml_dumps(data: dict, prefix: str = '') -> str:
    def scalar(value) -> str:
        if isinstance(value, bool):
            return 'true' if value else 'false'
        if isinstance(value, int):
            return str(value)
        if isinstance(value, str):
            return json.dumps(value)
        if isinstance(value, list):
            return '[' + ', '.join(scalar(v) for v in value) + ']'
        raise TypeError(value)

    lines = [f'{k} = {scalar(v)}' for k, v in data.items() if not isinstance(v, dict)]
    for key, value in data.items():
        if isinstance(value, dict):
            name = f'{prefix}{key}'
            lines += ['', f'[{name}]', toml_dumps(value, name + '.')]
    return '\n'.join(lines) + '\n'


def plain(value):
    if isinstance(value, typing.Mapping):
        return {k: plain(v) for k, v in value.items()}
    if isinstance(value, (list, tuple)):
        return [plain(v) for v in value]
    return value


def ref_merge(left: dict, right: dict) -> dict:
    out = dict(left)
    for key, value in right.items():
        if key in left and isinstance(left[key], dict) and isinstance(value, dict):
            out[key] = ref_merge(left[key], value)
        elif key in left and isinstance(left[key], list) and isinstance(value, list):
            out[key] = list(value) + [v for v in left[key] if v not in value]
        else:
            out[key] = value
    return out


def run_config(case: dict, root: str) -> dict:
    """Inside the fork: the real Config over generated files with injected fates."""
    import tomli  # pylint: disable=import-outside-toplevel

    import forml  # pylint: disable=import-outside-toplevel
    from forml.setup import _conf, _provider  # pylint: disable=import-outside-toplevel

    top = pathlib.Path(root) / 'conf'
    top.mkdir()
    paths, model, unreadable = [], [], set()
    expected_sources, expected_errors, abort = [], [], None
    for i, src in enumerate(case['sources']):
        path = top / f'layer{i}.toml'
        paths.append(path)
        text = toml_dumps(src['data']).encode()
        if src['fate'] == 'missing':
            continue
        if src['fate'] == 'torn':
            text = text[:int(len(text) * src['cut'])]
        elif src['fate'] == 'garbage':
            text = b'= this is [not toml\n' + text
        path.write_bytes(text)
        if src['fate'] == 'unreadable':
            unreadable.add(str(path))
    merged = plain(case['defaults'])
    for path, src in zip(paths, case['sources']):
        if abort is not None:
            break
        if src['fate'] == 'missing':
            continue
        if src['fate'] == 'unreadable':
            expected_errors.append(path.name)
            continue
        try:
            parsed = tomli.loads(path.read_bytes().decode())
        except ValueError as err:
            abort = f'{path.name}: {err}'
            continue
        merged = ref_merge(merged, parsed)
        model.append(parsed)
        expected_sources.append(path.name)
    real_open = pathlib.Path.open

    def flaky_open(self, *args, **kwargs):
        if str(self) in unreadable:
            raise PermissionError(13, 'injected: permission denied', str(self))
        return real_open(self, *args, **kwargs)

    pathlib.Path.open = flaky_open
    out: dict = {'abort_expected': abort}
    try:
        try:
            config = _conf.Config(plain(case['defaults']), *paths)
        except RuntimeError as err:
            out['aborted'] = str(err).replace(str(top), '<conf>')[:200]
            return out
        except Exception as err:  # pylint: disable=broad-except
            out['crashed'] = f'{type(err).__name__}: {err}'.replace(str(top), '<conf>')[:200]
            return out
        out['after_read'] = plain(config)
        out['expected_after_read'] = merged
        out['sources'] = [p.name for p in config.sources]
        out['expected_sources'] = expected_sources
        out['errors'] = sorted(p.name for p in config.errors)
        out['expected_errors'] = sorted(expected_errors)
        for upd in case['updates']:
            config.update(plain(upd['pos']), **plain(upd['kw']))  # keywords win over the positional mapping
            merged = ref_merge(ref_merge(merged, plain(upd['pos'])), plain(upd['kw']))
        out['after_update'] = plain(config)
        out['expected_after_update'] = merged
        _conf.CONFIG = config
        resolved, wanted = [], []
        for ref in case['resolve']:
            try:
                got = _provider.Runner.resolve(ref)
                resolved.append(['ok', got.reference, plain(got.params)])
            except forml.MissingError as err:
                resolved.append(['missing', str(err)[:80]])
            except Exception as err:  # pylint: disable=broad-except
                resolved.append(['error', f'{type(err).__name__}: {err}'[:120]])
            section = merged.get('RUNNER', {})
            name = ref or (section.get('default') if isinstance(section, dict) else None)
            body = section.get(name) if isinstance(section, dict) and isinstance(name, str) else None
            if not name or not isinstance(body, dict):
                wanted.append(['missing' if (not name or (isinstance(section, dict) and name not in section))
                               else 'undefined'])
                continue
            body = dict(body)
            prov = body.pop('provider', name)
            extra = body.pop('params', {})
            if isinstance(extra, dict):
                body.update(extra)
                wanted.append(['ok', str(prov), body])
            else:
                wanted.append(['undefined'])
        out['resolved'] = resolved
        out['expected_resolved'] = wanted
    finally:
        pathlib.Path.open = real_open
    return out


def judge_config(case: dict, res: dict) -> list[dict]:
    fates = [s['fate'] for s in case['sources']]
    where = f'config sources {fates}: '
    if 'crashed' in res:
        return [{'class': 'config-read-crashed', 'detail': where + res['crashed']}]
    if 'aborted' in res:
        if res['abort_expected'] is None:
            return [{'class': 'config-abort-on-valid-sources', 'detail': where + res['aborted']}]
        return []
    if res['abort_expected'] is not None:
        return [{'class': 'invalid-source-accepted',
                 'detail': where + f'an unparsable source ({res["abort_expected"][:80]}) did not abort the load'}]
    out = []
    for stage in ('after_read', 'after_update'):
        if res[stage] != res[f'expected_{stage}']:
            diff = [k for k in set(res[stage]) | set(res[f'expected_{stage}'])
                    if res[stage].get(k) != res[f'expected_{stage}'].get(k)]
            key = sorted(diff)[0]
            out.append({'class': 'config-merge-mismatch',
                        'detail': where + f'{stage}: key {key!r} is {res[stage].get(key)!r}, the reference merge says '
                                          f'{res[f"expected_{stage}"].get(key)!r}'})
            break
    if res['sources'] != res['expected_sources']:
        out.append({'class': 'config-sources-mismatch',
                    'detail': where + f'sources {res["sources"]} expected {res["expected_sources"]}'})
    if res['errors'] != res['expected_errors']:
        out.append({'class': 'config-errors-mismatch',
                    'detail': where + f'errors {res["errors"]} expected {res["expected_errors"]}'})
    for ref, got, want in zip(case['resolve'], res['resolved'], res['expected_resolved']):
        if want == ['undefined']:
            continue
        if got[0] != want[0] or (got[0] == 'ok' and got[1:] != want[1:]):
            out.append({'class': 'section-resolution-mismatch',
                        'detail': where + f'Runner.resolve({ref!r}) gave {got}, the reference says {want}'})
            break
    return out


# ------------------------------------------------------------------------------------------------
# seed-level entry points
# ------------------------------------------------------------------------------------------------
def scratch() -> str:
    return tempfile.mkdtemp(prefix='c20-')


def execute(cfg: dict, draw_index: int, schedule: typing.Optional[list] = None) -> tuple[dict, list[dict]]:
    root = scratch()
    try:
        write_universe(pathlib.Path(root), cfg['universe'])
        result = runmod.fork_run(simulate, cfg, root, cfg['draws'][draw_index], schedule, real_timeout=120,
                                 seed=cfg['seed'])
    finally:
        shutil.rmtree(root, ignore_errors=True)
    return result, judge(cfg, result, draw_index)


def execute_config(cfg: dict) -> tuple[dict, list[dict]]:
    root = scratch()
    try:
        res = runmod.fork_run(run_config, cfg['config'], root, real_timeout=60, seed=cfg['seed'])
    finally:
        shutil.rmtree(root, ignore_errors=True)
    return res, judge_config(cfg['config'], res)


def run_seed(seed: int) -> dict:
    cfg = gen_cfg(seed)
    out = {'seed': seed, 'violations': [], 'harness': None, 'steps': 0, 'switches': 0, 'stats': {}, 'draws': 0,
           'collisions': any(colliding(cfg['universe']).values()), 'lookups': 0, 'digest': None}
    digests = []
    outcomes = []
    try:
        for i in range(len(cfg['draws'])):
            result, violations = execute(cfg, i)
            out['draws'] += 1
            out['steps'] += result['steps']
            out['switches'] += result['switches']
            for key, val in result['stats'].items():
                out['stats'][key] = out['stats'].get(key, 0) + val
            digests.append(result['digest'])
            outcomes.append(result['outcomes'])
            out['lookups'] += sum(len(v) for v in result['outcomes'].values())
            for vio in violations:
                out['violations'].append({**vio, 'cfg': cfg, 'draw': i, 'decisions': result['decisions']})
        cres, cviol = execute_config(cfg)
        out['config_fates'] = [s['fate'] for s in cfg['config']['sources']]
        out['config_aborted'] = 'aborted' in cres
        for vio in cviol:
            out['violations'].append({**vio, 'cfg': cfg, 'draw': None, 'decisions': None})
    except runmod.RunFailed as err:
        out['harness'] = str(err)[:1500]
        return out
    out['digest'] = base.digest([digests, outcomes, cres])
    out['order_sensitive'] = len({json.dumps(o, sort_keys=True) for o in outcomes}) > 1
    if seed % 40 == 0:
        out['sample'] = {'seed': seed, 'interfaces': cfg['universe']['ifaces'],
                         'modules': {m: [f"{c['name']}({c['base'] or 'Iface%d' % c['iface']}"
                                         f"{', alias=' + c['alias'] if c['alias'] else ''}{', abstract' if c['abstract'] else ''})"
                                         for c in items] for m, items in cfg['universe']['modules'].items() if items},
                         'ops': cfg['ops'], 'outcomes_draw0': outcomes[0],
                         'config': {'fates': out['config_fates'], 'defaults': cfg['config']['defaults']}}
    return out


def reproduces(cfg: dict, draw, schedule, klass: str) -> typing.Optional[dict]:
    try:
        if draw is None:
            _, violations = execute_config(cfg)
        else:
            _, violations = execute(cfg, draw, schedule)
    except runmod.RunFailed:
        return None
    return next((v for v in violations if v['class'] == klass), None)


def minimise(cfg: dict, draw, klass: str, budget: int = 40):
    tests = [0]

    def attempt(cand, sched=None):
        if tests[0] >= budget:
            return None
        tests[0] += 1
        return reproduces(cand, draw, sched, klass)

    witness = attempt(cfg)
    if witness is None:
        return cfg, None, {'class': klass, 'detail': 'not reproduced on re-execution'}
    if draw is None:
        return cfg, None, witness
    best = cfg
    # fewer operations (thread by thread), then fewer classes
    for tid in range(len(best['ops']['threads'])):
        ops = best['ops']['threads'][tid]
        if len(ops) > 1:
            def with_ops(sub, tid=tid):
                threads = [list(t) for t in best['ops']['threads']]
                threads[tid] = sub
                return {**best, 'ops': {**best['ops'], 'threads': threads}}

            kept = base.ddmin(ops, lambda sub: attempt(with_ops(sub)) is not None, max_tests=budget // 4)
            got = attempt(with_ops(kept))
            if got is not None:
                best, witness = with_ops(kept), got
    try:
        result, _ = execute(best, draw)
    except runmod.RunFailed:
        return best, None, witness
    sched = list(result['decisions'])
    if attempt(best, sched) is None:
        return best, None, witness
    for i in range(len(sched)):
        if tests[0] >= budget:
            break
        if sched[i]:
            cand = sched[:i] + [0] + sched[i + 1:]
            got = attempt(best, cand)
            if got is not None:
                sched, witness = cand, got
    while sched and sched[-1] == 0:
        sched.pop()
    return best, sched, witness


def main(argv: list[str]) -> int:
    import argparse  # pylint: disable=import-outside-toplevel

    parser = argparse.ArgumentParser(prog='check.py C20')
    parser.add_argument('--tier', default=None)
    parser.add_argument('--replay', default=None)
    parser.add_argument('--seeds', type=int, default=None)
    parser.add_argument('--budget', type=float, default=None)
    args = parser.parse_args(argv)
    logging.disable(logging.CRITICAL)
    import forml.provider  # noqa: F401 pylint: disable=import-outside-toplevel,unused-import
    import forml.setup  # noqa: F401 pylint: disable=import-outside-toplevel,unused-import

    if args.replay:
        doc = json.loads(pathlib.Path(args.replay).read_text())
        got = reproduces(doc['config'], doc.get('draw'), doc.get('schedule'), doc['violation']['class'])
        print(f'replay seed={doc["seed"]} expected={doc["violation"]["class"]} got={got and got["class"]}')
        if got:
            print(f'VIOLATION property={PROP} replay={args.replay}')
            print(f'  {got["detail"]}')
            return base.EXIT_VIOLATION
        return base.EXIT_OK
    tier = base.tier(args.tier)
    seed0 = base.base_seed()
    nseeds = args.seeds or (3000 if tier == 'quick' else 400000)
    budget = args.budget or (40 if tier == 'quick' else 1500)
    print(f'{PROP} seed={seed0} tier={tier} seeds<={nseeds} budget={budget}s')
    base.clean_replays(PROP)
    start = time.monotonic()
    jobs = [seed0 * 100000 + i for i in range(nseeds)]
    results, errors, exhausted = base.sweep(run_seed, jobs, budget, per_item_limit_s=600)
    base.emit_digests(results)
    open_ids = {f['id'] for f in base.open_findings(PROP)}
    stats: collections.Counter = collections.Counter()
    counts: collections.Counter = collections.Counter()
    fates: collections.Counter = collections.Counter()
    digests, samples, violations, known = set(), [], [], {}
    for res in results:
        if res.get('harness'):
            errors.append(f'seed {res["seed"]}: {res["harness"]}')
            continue
        counts['cases'] += 1
        counts['runs'] += res['draws'] + 1
        counts['steps'] += res['steps']
        counts['switches'] += res['switches']
        counts['lookups'] += res['lookups']
        counts['colliding_universes'] += bool(res['collisions'])
        counts['order_sensitive_cases'] += bool(res.get('order_sensitive'))
        counts['config_aborts'] += bool(res.get('config_aborted'))
        fates.update(res.get('config_fates', []))
        stats.update(res['stats'])
        digests.add(res['digest'])
        if res.get('sample') and len(samples) < 2:
            samples.append(res['sample'])
        for vio in res['violations']:
            if vio.get('known_id') in open_ids:
                known.setdefault(vio['known_id'], (res['seed'], vio))
                counts['known_hits'] += 1
            else:
                violations.append((res['seed'], vio))
    for fid, (seed, item) in sorted(known.items()):
        print(f'KNOWN-FINDING: property={PROP} {fid}: seed {seed}: {item["detail"][:300]} '
              f'[{counts["known_hits"]} lookups hit it]')
    reported = {}
    for seed, vio in violations:
        reported.setdefault(vio['class'], (seed, vio))
    nviol = 0
    for klass, (seed, vio) in sorted(reported.items()):
        cfg, sched, witness = minimise(vio['cfg'], vio['draw'], klass)
        path = base.write_replay(PROP, f'{seed}-{nviol}', {
            'property': PROP, 'seed': seed, 'tier': tier, 'engine': 'A' if vio['draw'] is not None else 'file-faults',
            'config': cfg, 'draw': vio['draw'], 'schedule': sched,
            'ops': cfg['ops'] if vio['draw'] is not None else cfg['config'],
            'violation': {'class': klass, 'detail': witness['detail']}})
        print(f'VIOLATION property={PROP} replay={path}')
        print(f'  class={klass}: {witness["detail"][:500]}')
        nviol += 1
    wall = time.monotonic() - start
    coverage = {
        'evaluations': counts['runs'],
        'distinct_nontrivial': len(digests),
        'rule': 'one case = one generated provider universe + operation lists + one generated config stack; it is run as '
                'three simulated executions of the lookups (three draws of search-path order and thread schedule, each in '
                'a fresh fork) plus one execution of the config stack with its injected file fates; evaluations counts '
                'those executions; distinct = distinct digests over (schedule traces, outcomes, config result) per case; '
                'every case contains at least one judged operation',
        'samples': samples,
        'cases': counts['cases'], 'operations_judged': counts['lookups'],
        'universes_with_collisions': counts['colliding_universes'],
        'cases_whose_outcomes_differ_between_draws': counts['order_sensitive_cases'],
        'known_finding_hits': counts['known_hits'],
        'config_source_fates_injected': dict(fates), 'config_loads_aborted_by_invalid_source': counts['config_aborts'],
        'kernel_steps': counts['steps'], 'context_switches': counts['switches'],
        'preemption_points_offered': stats.get('preempt_points', 0),
        'seeds': [jobs[0], jobs[len(results) - 1]] if results else [],
        'runs_per_hour': round(counts['runs'] / wall * 3600) if wall else 0,
        'simulated_seconds': 0,
        'fault_kinds_fired': {'config-source-' + k: v for k, v in fates.items() if k != 'ok'},
        'real_components': ['forml/provider/__init__.py (Bank, Meta, Service, Reference)', 'forml/setup/_conf.py (Config, '
                            'Section)', 'forml/setup/_provider.py (Provider._extract, Runner)', 'the interpreter\'s import '
                            'system over generated packages on disk'],
        'stubbed_components': ['iteration order of Bank.paths (seeded ranking instead of the string hash)',
                               'threads (kernel tasks; a module import is one atomic step)',
                               'pathlib.Path.open for the generated config files (PermissionError)'],
        'sweep_completed': exhausted, 'harness_errors': len(errors),
    }
    base.write_evidence(PROP, tier, seed0, 'exploration', coverage, wall, nviol, [
        'claimed in part: runtime/_pad.py wiring and the process-wide CONFIG singleton are not exercised',
        'a module import is atomic in the simulation (real import locks); interleavings inside an import are not explored',
        'the search-path order is arbitrary but consistent within a run (like a hash order), never re-drawn between lookups',
        'in universes with a colliding reference only safety is judged (no foreign / abstract provider, collision of two '
        'fully imported modules refused); the exact outcome is asserted in collision-free universes only',
        'no virtual time: nothing in this code reads a clock'])
    print(f'{PROP}: cases={counts["cases"]} executions={counts["runs"]} operations={counts["lookups"]} '
          f'colliding_universes={counts["colliding_universes"]} steps={counts["steps"]} violations={nviol} '
          f'known={len(known)} harness_errors={len(errors)} wall={wall:.1f}s')
    for err in errors[:5]:
        print('HARNESS-ERROR:', err[:800], file=sys.stderr)
    if nviol:
        return base.EXIT_VIOLATION
    return base.EXIT_HARNESS if errors else base.EXIT_OK
