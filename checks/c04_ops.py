"""Operations a crashbox child executes for C04 (real forml lifecycle code; no model logic)."""
import json
import os
import pathlib

from forml import project as prj
from forml.io import asset, layout
from forml.provider.registry.filesystem import posix
from forml.provider.runner import dask as daskrun
from forml.provider.runner import pyfunc

from workloads import lifecycle as lc


def _directory(ctx) -> asset.Directory:
    if 'registry' not in ctx:
        import gc  # pylint: disable=import-outside-toplevel

        mode = os.environ.get('LC_GC', 'default')  # collector timing is a simulator decision per incarnation
        if mode == 'off':
            gc.disable()
        elif mode == 'aggressive':
            gc.set_threshold(20, 1, 1)
        root = pathlib.Path(ctx['root'])
        ctx['registry'] = posix.Registry(root / 'registry', staging=root / 'staging')
    return asset.Directory(ctx['registry'])  # a fresh directory (fresh level objects) per action, shared caches


def _runner(instance, seed: int = 0):
    """The Dask runner under the scheduler chosen for this incarnation ($LC_SCHEDULER): synchronous, or the real
    threads / processes schedulers on the simulated pool (processes = every task and result really cloudpickled)."""
    mode = os.environ.get('LC_SCHEDULER', 'synchronous')
    if mode == 'synchronous':
        return daskrun.Runner(instance, lc.Feed(), lc.Sink(), scheduler='synchronous')
    import random  # pylint: disable=import-outside-toplevel

    import dask.local  # pylint: disable=import-outside-toplevel

    from workloads import tables  # pylint: disable=import-outside-toplevel

    pool = tables.SimPool(3, random.Random(seed), {})
    tables.SimQueue.pool = pool
    dask.local.Queue = tables.SimQueue
    return daskrun.Runner(instance, lc.Feed(), lc.Sink(), scheduler=mode, pool=pool, num_workers=3)


def _drain() -> list:
    path = os.environ.get('LC_LOG')
    if not path or not os.path.exists(path):
        return []
    with open(path, encoding='utf-8') as handle:
        out = [json.loads(line) for line in handle if line.strip()]
    os.unlink(path)
    return out


def _instance(ctx, project, release, generation):
    return asset.Instance(project, release, generation, _directory(ctx))


def publish(ctx, package: str):
    pkg = prj.Package(package)
    _directory(ctx).get(pkg.manifest.name).put(pkg)
    return 'accepted'


def train(ctx, project, release, token):
    os.environ['LC_TOKEN'] = str(token)
    _drain()
    instance = _instance(ctx, project, release, None)
    _runner(instance, token).train()
    fresh = _instance(ctx, project, release, None)
    return {'log': _drain(), 'generation': int(fresh._generation.key), 'nstates': len(fresh.tag.states)}  # pylint: disable=protected-access


def apply(ctx, project, release, generation, token=0):
    os.environ['LC_TOKEN'] = str(token)
    _drain()
    instance = _instance(ctx, project, release, generation)
    _runner(instance, token).apply()
    generation = int(instance._generation.key)  # pylint: disable=protected-access
    return {'log': _drain(), 'generation': generation, 'nstates': len(instance.tag.states)}


def perftrack(ctx, project, release, generation, token=0):
    os.environ['LC_TOKEN'] = str(token)
    _drain()
    instance = _instance(ctx, project, release, generation)
    _runner(instance, token).eval_perftrack()
    generation = int(instance._generation.key)  # pylint: disable=protected-access
    return {'log': _drain(), 'generation': generation, 'nstates': len(instance.tag.states)}


def serve(ctx, project, release, generation, token=0):
    os.environ['LC_TOKEN'] = str(token)
    _drain()
    instance = _instance(ctx, project, release, generation)
    key = (project, release, int(instance._generation.key))  # pylint: disable=protected-access
    runners = ctx.setdefault('runners', {})
    if key not in runners:  # a serving process keeps its runner (states preloaded once)
        runners[key] = pyfunc.Runner(instance, lc.Feed(), lc.Sink())
    entry = layout.Entry(lc.Req.select(lc.Req.tok, lc.Req.idx).schema, layout.Dense.from_rows([(token, 0), (token, 1)]))
    runners[key].call(entry)
    return {'log': _drain(), 'generation': key[2], 'nstates': len(instance.tag.states)}


def session(ctx, project, release, generation, token, then, token2):
    """Two actions through ONE instance (a launcher / runner that is kept around): re-train from the pinned
    generation, then load through the very same instance object."""
    os.environ['LC_TOKEN'] = str(token)
    _drain()
    instance = _instance(ctx, project, release, generation)
    _runner(instance, token).train()
    first = _drain()
    fresh = _instance(ctx, project, release, None)
    trained = {'log': first, 'generation': int(fresh._generation.key), 'nstates': len(fresh.tag.states)}  # pylint: disable=protected-access
    os.environ['LC_TOKEN'] = str(token2)
    runner = _runner(instance, token2)
    if then == 'apply':
        runner.apply()
    else:
        runner.eval_perftrack()
    loaded = {'log': _drain(), 'generation': int(instance._generation.key), 'nstates': len(instance.tag.states)}  # pylint: disable=protected-access
    return {'train': trained, 'load': loaded}


def generations(ctx, project, release):
    directory = _directory(ctx)
    return [int(g) for g in directory.get(project).get(release).list()]


OPS = {'publish': publish, 'train': train, 'apply': apply, 'perftrack': perftrack, 'serve': serve,
       'generations': generations, 'session': session}
