"""Self-tests of the machinery itself (not registered as property checks).

  check.py selftest determinism <ID> [--n N]   same seed twice in fresh interpreters (and under another
                                               PYTHONHASHSEED and worker count): event-log digests must match
  check.py selftest sensitivity <ID> [name..]  apply each source mutation of the must-catch list to a scratch
                                               copy of /repo/forml (outside /repo and /verif, removed afterwards)
                                               and require the quick check to report a VIOLATION
  check.py selftest seeded [dir..]             same for the sub-agent made changes kept under /verif/seeded
"""
import json
import os
import pathlib
import shutil
import subprocess
import sys
import tempfile
import time

from vlib import base

REPO = pathlib.Path('/repo')
PY = sys.executable

# (property, name) -> list of (relative file, old text, new text); all keep the repo's own tests green
MUTANTS: dict[str, dict[str, list[tuple[str, str, str]]]] = {
    'C05': {
        'tag-before-states': [('forml/provider/registry/filesystem/posix.py',
                               """        for sid in tag.states:
            source = self._path.state(sid, project, release)
            if not source.exists():
                raise asset.Level.Invalid(f'State {sid} not staged')
            target = self._path.state(sid, project, release, generation)
            source.rename(target)
        # the tag makes the generation listed - write it aside and rename into place so that an
        # interrupted commit never leaves a listed generation with a partial tag behind
        temp = path.with_name(f'.{path.name}.tmp')
        with temp.open('wb') as tagfile:
            tagfile.write(tag.dumps())
        temp.replace(path)
""",
                               """        temp = path.with_name(f'.{path.name}.tmp')
        with temp.open('wb') as tagfile:
            tagfile.write(tag.dumps())
        temp.replace(path)
        for sid in tag.states:
            source = self._path.state(sid, project, release)
            if not source.exists():
                raise asset.Level.Invalid(f'State {sid} not staged')
            target = self._path.state(sid, project, release, generation)
            source.rename(target)
""")],
        'tag-in-place': [('forml/provider/registry/filesystem/posix.py',
                          """        temp = path.with_name(f'.{path.name}.tmp')
        with temp.open('wb') as tagfile:
            tagfile.write(tag.dumps())
        temp.replace(path)
""",
                          """        with path.open('wb') as tagfile:
            tagfile.write(tag.dumps())
""")],
        'generation-len-plus-one': [('forml/io/asset/_directory/level/major.py',
                                     'generation = self.list().last.next',
                                     'generation = genmod.Generation.Key(len(self.list()) + 1); self.list().last')],
        'release-ge': [('forml/io/asset/_directory/level/case.py', 'if not release > previous:',
                        'if not release >= previous:')],
        'listing-without-tag': [('forml/provider/registry/filesystem/posix.py',
                                 'return (level / Path.TAGFILE).exists()', 'return True')],
        'listing-without-package': [('forml/provider/registry/filesystem/posix.py',
                                     'return (level / Path.PKGFILE).exists()', 'return level.is_dir()')],
        'close-tolerates-missing-state': [('forml/provider/registry/filesystem/posix.py',
                                           """            if not source.exists():
                raise asset.Level.Invalid(f'State {sid} not staged')
""", """            if not source.exists():
                continue
""")],
        'states-sorted-on-commit': [('forml/io/asset/_access.py',
                                     'self._generation = self._generation.release.put(tag.replace(states=states))',
                                     'self._generation = self._generation.release.put(tag.replace(states=sorted(states)))')],
        'push-in-place': [('forml/provider/registry/filesystem/posix.py',
                           'temp = path.with_name(f\'.{path.name}.tmp\')\n        if temp.is_dir():',
                           'temp = path\n        if False:')],
    },
    'C04': {
        'unreadable-state-counts-as-no-state': [('forml/provider/registry/filesystem/posix.py',
                                                 """        except FileNotFoundError:
            LOGGER.warning('No state %s under %s', sid, path)""",
                                                 """        except OSError:
            LOGGER.warning('No state %s under %s', sid, path)""")],
        'package-installed-in-place-again': [('forml/project/_distribution.py', """                aside = pathlib.Path(temp) / path.name
""", """                aside = path
""")],
        'latest-resolved-per-task-copy': [('forml/io/asset/_access.py', '            self._generation.key  # pylint: disable=pointless-statement',
                                           '            pass')],
        'derived-depends-on-lifetimes-again': [('forml/flow/_graph/atomic.py',
                                                ' or (self._group.trained and not self.trained)', '')],
        'state-load-offset-shifted': [('forml/io/asset/_access.py', 'return self._generation.get(self.offset(gid))',
                                       'return self._generation.get((self.offset(gid) + 1) % len(self._nodes))')],
        'setstate-keeps-pickled-params': [('forml/flow/_code/target/user.py',
                                           """        params = actor.get_params()
        actor.set_state(value)
        actor.set_params(**params)""", """        actor.set_state(value)""")],
        'generation-get-ignores-explicit-key': [('forml/io/asset/_directory/level/major.py',
                                                 'return genmod.Generation(self, key)',
                                                 'return genmod.Generation(self, None)')],
        'committer-offsets-in-visit-order': [('forml/flow/_code/compiler.py',
                                              'self._linkage.insert(self._committer, dumper, self._assets.offset(state))',
                                              'self._linkage.insert(self._committer, dumper, len(self._linkage[self._committer]))')],
        'positional-state-from-sorted-listing': [('forml/io/asset/_directory/level/minor.py',
                                                  'key = self.tag.states[key]', 'key = sorted(self.tag.states)[key]')],
    },
    'C17': {
        'abtest-select-unsynchronised': [('forml/application/_strategy.py',
                                          '        with self._lock:  # selections arrive from a pool of threads',
                                          '        if True:')],
        'lowest-release-wins': [('forml/application/_strategy.py', 'for release in reversed(project.list()):',
                                 'for release in project.list():')],
        'empty-release-stops-the-search': [('forml/application/_strategy.py', """                except assetmod.Level.Listing.Empty:
                    continue
                break""", """                except assetmod.Level.Listing.Empty:
                    break
                break""")],
        'refresh-never-updates': [('forml/application/_strategy.py', '                if changed:', '                if not changed:')],
        'refresh-interval-scaled': [('forml/application/_strategy.py', 'time.sleep(self._interval)',
                                     'time.sleep(self._interval * 10)')],
        'refresher-never-started': [('forml/application/_strategy.py', """                if not self._refresher.is_alive():
                    self._refresher.start()""", """                pass""")],
        'refresher-dies-on-error': [('forml/application/_strategy.py', """                try:
                    new = self._pick(registry)
                    changed = new != old
                except Exception as err:  # pylint: disable=broad-except
                    # must not kill the refresher - keep serving the others (and retry this one next time)
                    LOGGER.warning('Unable to refresh the latest instance from %s: %s', registry, err)
                    continue""", """                new = self._pick(registry)
                changed = new != old""")],
        'eligible-uses-le': [('forml/application/_strategy.py', 'return (self.count / total) < self.target',
                              'return (self.count / total) <= self.target')],
        'slots-sorted-ascending': [('forml/application/_strategy.py', 'key=lambda s: s.target, reverse=True',
                                    'key=lambda s: s.target, reverse=False')],
        'explicit-rebuilds-latest-generation': [('forml/application/_strategy.py', """                generation=self._generation,
            )
        return self._instance""", """                generation=None,
            )
        return self._instance""")],
    },
    'C06': {
        'cache-file-written-in-place-again': [('forml/provider/feed/alchemy.py', """                frame.to_parquet(temp, index=False)
                temp.replace(path)
""", """                frame.to_parquet(path, index=False)
""")],
        'literal-hash-collides-again': [('forml/io/dsl/_struct/series.py',
                                         "return super().__hash__() ^ hash(repr(self.value))", 'return super().__hash__()')],
        'cache-key-forgets-literals': [('forml/provider/feed/alchemy.py', "compile_kwargs={'literal_binds': True}",
                                        "compile_kwargs={'literal_binds': False}")],
        'cache-key-truncated': [('forml/provider/feed/alchemy.py', ').encode()).hexdigest()', ').encode()).hexdigest()[:1]')],
        'memory-cache-shared-across-keys': [('forml/provider/feed/alchemy.py', """            self._frames[key] = frame
        else:""", """            self._frames[key] = frame
            self._frames[''] = frame
        else:"""), ('forml/provider/feed/alchemy.py', "        return self._frames[key]", "        return self._frames.get('', self._frames[key])")],
        'lazy-registers-once-per-process': [('forml/provider/feed/lazy.py',
                                             'if origin not in self.PARTITIONS or self.PARTITIONS[origin].symmetric_difference(partitions):',
                                             'if not self.PARTITIONS:')],
    },
    'C02': {
        'dask-arguments-reversed': [('forml/provider/runner/dask.py', '(*(link(a) for a in args.get(leaf, [])))',
                                     '(*(link(a) for a in reversed(args.get(leaf, []))))')],
        'dask-impure-keys-collide': [('forml/provider/runner/dask.py', 'dask.delayed(leaf, pure=True, traverse=False)',
                                      'dask.delayed(leaf, name=repr(leaf), traverse=False)')],
        'pyfunc-replicas-off-by-one': [('forml/provider/runner/pyfunc.py', 'return [cls(queue, term, replicas) for _ in range(szout)]',
                                        'return [cls(queue, term, replicas) for _ in range(szout - 1)] + [term]')],
        'pyfunc-head-not-forked': [('forml/provider/runner/pyfunc.py',
                                    'providers[dag[0].term] = collections.deque(fork(dag[0].term, dag[0].szout))',
                                    'pass')],
        'pyfunc-leftovers-not-cleared': [('forml/provider/runner/pyfunc.py', """            for queue in self._queues:  # a failed call must not leak its replicas into the next one
                queue.clear()""", """            pass""")],
        'dumper-not-linked-to-committer': [('forml/flow/_code/compiler.py',
                                            'self._linkage.insert(self._committer, dumper, self._assets.offset(state))',
                                            'self._linkage.insert(self._committer, dumper, 0) if not self._linkage[self._committer] else None')],
    },
    'C20': {
        'registration-bank-by-bank': [('forml/provider/__init__.py',
                                       """        for parent in parents:  # a colliding provider is refused as a whole - before any of the banks gets touched
            BANK[parent].verify(cls, alias)
""", '')],
        'providers-iterated-live-again': [('forml/provider/__init__.py', 'return iter(tuple(BANK[cls].provider))',
                                           'return iter(BANK[cls].provider)')],
        'collision-check-dropped': [('forml/provider/__init__.py', """                raise forml.UnexpectedError(f'Provider reference collision ({ref})')
""", """                continue
""")],
        'abstract-providers-registered': [('forml/provider/__init__.py', """        if isabstract(provider):
            return
""", '')],
        'lookup-gives-up-after-one-import': [('forml/provider/__init__.py',
                                              'while reference not in self.provider and paths:',
                                              'if reference not in self.provider and paths:')],
        'alias-specific-paths-forgotten': [('forml/provider/__init__.py',
                                            'paths = [*self.paths, *reference.paths(self.paths)]',
                                            'paths = [*self.paths]')],
        'qualified-reference-matched-by-name-only': [('forml/provider/__init__.py', """            module = value.__module__
            qualname = value.__qualname__
        return Qualifier(module, qualname)""", """            module = value.__module__
            qualname = value.__qualname__
        return Qualifier(module.rsplit('.', 1)[-1], qualname)""")],
        'lists-merged-old-first': [('forml/setup/_conf.py',
                                    'value = *right[key], *(v for v in left[key] if v not in right[key])',
                                    'value = *left[key], *(v for v in right[key] if v not in left[key])')],
        'lists-replaced-not-merged': [('forml/setup/_conf.py',
                                       'elif key in common and isinstance(left[key], (list, tuple)) and isinstance(right[key], (list, tuple)):',
                                       'elif False:')],
        'unreadable-source-aborts': [('forml/setup/_conf.py', """        except PermissionError as err:  # soft error (warn)
            self._errors[path] = err
""", '')],
        'invalid-source-skipped-silently': [('forml/setup/_conf.py', """        except ValueError as err:  # hard error (abort)
            raise RuntimeError(f'Invalid config file {path}: {err}') from err
""", """        except ValueError as err:
            self._errors[path] = err
""")],
        'kwargs-merged-before-positional': [('forml/setup/_conf.py',
                                             'super().update(merge(merge(self, other or {}), kwargs))',
                                             'super().update(merge(merge(self, kwargs), other or {}))')],
        'explicit-params-lose-against-section': [('forml/setup/_conf.py', """        kwargs.update(kwargs.pop(OPT_PARAMS, {}))
        return [], kwargs""", """        kwargs = {**kwargs.pop(OPT_PARAMS, {}), **kwargs}
        return [], kwargs""")],
    },
    'C11': {
        'extend-tolerates-a-refused-connection': [('forml/flow/_graph/span.py',
                                                   """            right.subscribe(self.publisher)
            if not tail:""",
                                                   """            try:
                right.subscribe(self.publisher)
            except _exception.TopologyError:
                pass  # connected before
            if not tail:""")],
        'extend-publishes-the-head': [('forml/flow/_graph/span.py',
                                       """            right.subscribe(self.publisher)
            if not tail:""",
                                       """            right.subscribe(self._head[0].publisher if self._head.szout else self.publisher)
            if not tail:""")],
        'any-dying-subscription-frees-the-port': [('forml/flow/_graph/port.py', 'if ports and ports.get(self.port) == id(self):',
                                                   'if ports and self.port in ports:')],
        'publish-rollback-removed': [('forml/flow/_graph/port.py',
                                      """            Subscription._PORTS[subscriber].pop(port, None)  # pylint: disable=protected-access
            raise err""", """            raise err""")],
        'double-subscription-test-dropped': [('forml/flow/_graph/port.py',
                                              """        if port in ports:
            raise _exception.TopologyError('Double subscription')
""", '')],
        'apply-train-collision-test-dropped': [('forml/flow/_graph/port.py',
                                                """        if ports and (isinstance(port, Apply) ^ any(isinstance(s, Apply) for s in ports)):
            raise _exception.TopologyError('Apply/Train collision')
""", '')],
        'fork-train-collision-test-dropped': [('forml/flow/_graph/atomic.py',
                                               """        if any(f.trained for f in self._group):
            raise _exception.TopologyError('Fork train collision')
""", '')],
        'collapse-not-rerun-on-late-registration': [('forml/flow/_graph/atomic.py',
                                                     """            self._input[publisher] = index
            self._collapse()""", """            self._input[publisher] = index""")],
        'cycle-test-removed': [('forml/flow/_graph/span.py',
                                """            if node in self.members:
                raise self.Cyclic(f'Cyclic flow near {node}')
""", """            if node in self.members:
                continue
""")],
        'validator-ignores-futures': [('forml/flow/_suite/clean.py',
                                       """        if isinstance(node, atomic.Future):
            self._futures.add(node)""", """        if isinstance(node, atomic.Future) and node.szin > 1:
            self._futures.add(node)""")],
        'trained-publisher-test-dropped': [('forml/flow/_graph/atomic.py',
                                            """        if self.trained:
            raise _exception.TopologyError('Trained node publishing')
""", '')],
        'self-subscription-test-dropped': [('forml/flow/_graph/atomic.py',
                                            """        if self is subscription.node:
            raise _exception.TopologyError('Self subscription')
""", '')],
    },
    'C16': {
        'cancelled-caller-kills-executor': [('forml/runtime/_service/prediction.py',
                                             '        outcome.set_running_or_notify_cancel()\n', '')],
        'descriptor-race': [('forml/runtime/_service/dispatch.py',
                             'if application not in self._descriptors:  # may have been registered concurrently',
                             'if application not in updates:')],
        'result-matched-by-arrival-order': [('forml/runtime/_service/prediction.py',
                                             """            if result.exception:
                self._pending[result.id].set_exception(result.exception)
            else:
                self._pending[result.id].set_result(result.outcome)
            del self._pending[result.id]""",
                                             """            key = next(iter(self._pending))
            if result.exception:
                self._pending[key].set_exception(result.exception)
            else:
                self._pending[key].set_result(result.outcome)
            del self._pending[key]""")],
        'task-id-reused': [('forml/runtime/_service/prediction.py', '        self._index += 1\n',
                            '        self._index = (self._index + 1) % 3\n')],
        'pending-registered-after-put': [('forml/runtime/_service/prediction.py',
                                          """        self._pending[self._index] = outcome
        self._tasks.put(Task(self._index, entry))""",
                                          """        self._tasks.put(Task(self._index, entry))
        self._pending[self._index] = outcome""")],
        'dealer-cache-keyed-by-project': [('forml/runtime/_service/dispatch.py',
                                           """        if instance not in self._cache:
            LOGGER.info('Spawning new prediction executor')""",
                                           """        key = instance
        instance = str(instance.project.source.extract.apply)
        if instance not in self._cache:
            LOGGER.info('Spawning new prediction executor')
            instance = key"""),
                                          ('forml/runtime/_service/dispatch.py',
                                           """            self._cache[instance] = executor
        outcome = self._cache[instance].apply(entry)""",
                                           """            self._cache[str(instance.project.source.extract.apply)] = executor
        outcome = self._cache[str(key.project.source.extract.apply)].apply(entry)""")],
        'worker-swallows-platform-error': [('forml/runtime/_service/prediction.py',
                                            """                except forml.AnyError as err:
                    self._results.put_nowait(task.failure(err))""",
                                            """                except forml.AnyError as err:
                    LOGGER.warning('Task failed: %s', err)""")],
        'overflow-is-not-a-cast-error': [('forml/io/dsl/_struct/kind.py', 'except (ValueError, TypeError, OverflowError) as err:',
                                          'except (ValueError, TypeError) as err:')],
        'unknown-application-remembered': [('forml/runtime/_service/dispatch.py',
                                            """            if application not in self._descriptors:  # may have been registered concurrently
                raise""",
                                            """            if application not in self._descriptors:  # may have been registered concurrently
                self._descriptors[application] = None
                raise""")],
        'gateway-remembers-last-accept': [('forml/provider/gateway/rest.py',
                                           """        accept = request.headers.get('accept')
        if accept:
            accept = layout.Encoding.parse(accept)""",
                                           """        accept = request.headers.get('accept')
        if accept:
            accept = self._accept = layout.Encoding.parse(accept)
        else:
            accept = getattr(self, '_accept', None)""")],
        'gateway-body-buffer-shared': [('forml/provider/gateway/rest.py',
                                        """        payload = await request.body()""",
                                        """        chunks = self.__dict__.setdefault('_chunks', [])
        chunks.clear()
        async for chunk in request.stream():
            chunks.append(chunk)
        payload = b''.join(chunks)""")],
        'gateway-answers-half-a-body': [('forml/provider/gateway/rest.py',
                                         """        payload = await request.body()""",
                                         """        payload = b''
        try:
            async for chunk in request.stream():
                payload += chunk
        except reqmod.ClientDisconnect:
            payload = payload[: payload.rfind(b'}') + 1] + b']'""")],
        'worker-dies-on-platform-error': [('forml/runtime/_service/prediction.py',
                                           """                except forml.AnyError as err:
                    self._results.put_nowait(task.failure(err))
                except Exception as err:""",
                                           """                except Exception as err:""")],
    },
}


def scratch_tree(mutations: list[tuple[str, str, str]]) -> str:
    """Copy /repo/forml to a scratch directory outside /repo and /verif and apply the substitutions."""
    top = tempfile.mkdtemp(prefix='verif-mutant-')
    shutil.copytree(REPO / 'forml', os.path.join(top, 'forml'), ignore=shutil.ignore_patterns('__pycache__'))
    for rel, old, new in mutations:
        path = pathlib.Path(top) / rel
        text = path.read_text()
        if old not in text:
            shutil.rmtree(top, ignore_errors=True)
            raise base.HarnessError(f'mutation does not apply to {rel}: {old[:60]!r}')
        path.write_text(text.replace(old, new, 1))
    return top


def run_check(prop: str, extra_env: dict, args: list[str] = (), timeout: int = 900) -> tuple[int, str]:
    env = dict(os.environ)
    env.update(extra_env)
    env['VERIF_NO_EVIDENCE'] = '1'
    proc = subprocess.run([PY, str(base.VERIF / 'check.py'), prop, *args], env=env, capture_output=True, text=True,
                          timeout=timeout, check=False)
    return proc.returncode, proc.stdout + proc.stderr


def sensitivity(prop: str, names: list[str], extra: list[str]) -> int:
    table = MUTANTS.get(prop.upper(), {})
    names = names or sorted(table)
    missed = 0
    for name in names:
        top = scratch_tree(table[name])
        start = time.monotonic()
        try:
            code, out = run_check(prop, {'PYTHONPATH': top}, ['--tier', 'quick', *extra])
        finally:
            shutil.rmtree(top, ignore_errors=True)
        lines = [l for l in out.splitlines() if l.startswith('VIOLATION') or l.startswith('  class=')]
        verdict = 'CAUGHT' if code == 1 and any(l.startswith('VIOLATION') for l in lines) else f'MISSED (exit {code})'
        if code != 1:
            missed += 1
        print(f'{prop} mutant {name}: {verdict} in {time.monotonic() - start:.0f}s')
        for line in lines[:4]:
            print('    ' + line[:260])
        if code not in (0, 1):
            print(out[-1500:])
    return 1 if missed else 0


def determinism(prop: str, extra: list[str]) -> int:
    """Same command, fresh interpreters, different hash seeds and worker counts -> same digests."""
    outs = []
    for hashseed, nworkers in (('0', '16'), ('0', '4'), ('12345', '16')):
        code, out = run_check(prop, {'VERIF_HASHSEED': hashseed, 'VERIF_WORKERS': nworkers, 'VERIF_DIGESTS': '1'},
                              ['--tier', 'quick', *extra])
        digs = sorted(l for l in out.splitlines() if l.startswith('DIGEST '))
        print(f'{prop} hashseed={hashseed} workers={nworkers}: exit={code} digests={len(digs)} '
              f'all={base.digest(digs)}')
        outs.append(dict(l.split()[1:3] for l in digs))
    common = set(outs[0]) & set(outs[1]) & set(outs[2])
    bad = [s for s in common if outs[0][s] != outs[1][s]]  # same interpreter settings, other worker count / order
    hashdep = [s for s in common if s not in bad and outs[0][s] != outs[2][s]]
    print(f'{prop}: {len(common)} seeds compared across 3 configurations, {len(bad)} diverged {bad[:5]}')
    if hashdep:
        # the checks pin PYTHONHASHSEED=0 (re-exec) and replay files are replayed under the same value, so this is
        # not a replay breaker; it is reported because it names a hash-order dependence nobody put behind a seam
        # (known: Dask's scheduler iterates sets of task keys - the order in which a failing table's tasks are
        # handed to the simulated pool follows the string hash)
        print(f'{prop}: {len(hashdep)} seeds depend on PYTHONHASHSEED only (pinned to 0 by every check): {hashdep[:5]}')
    return 1 if bad or not common else 0


def seeded(names: list[str]) -> int:
    root = base.VERIF / 'seeded'
    missed = 0
    for path in sorted(root.iterdir()):
        if not path.is_dir() or (names and path.name not in names):
            continue
        meta = json.loads((path / 'meta.json').read_text())
        prop = meta['property']
        if meta.get('neutralised_by') and not names:
            print(f'{path.name} ({prop}): skipped - no longer breaks the property since {meta["neutralised_by"]["commit"]}')
            continue
        top = tempfile.mkdtemp(prefix='verif-seeded-')
        try:
            shutil.copytree(REPO / 'forml', os.path.join(top, 'forml'), ignore=shutil.ignore_patterns('__pycache__'))
            proc = subprocess.run(['patch', '-p1', '-s', '-d', top, '-i', str(path / 'patch.diff')],
                                  capture_output=True, text=True, check=False)
            if proc.returncode:
                print(f'{path.name}: patch does not apply: {proc.stdout[-300:]}')
                missed += 1
                continue
            start = time.monotonic()
            code, out = run_check(prop, {'PYTHONPATH': top}, ['--tier', 'quick', *meta.get('check_args', [])])
        finally:
            shutil.rmtree(top, ignore_errors=True)
        lines = [l for l in out.splitlines() if l.startswith('VIOLATION') or l.startswith('  class=')]
        print(f'{path.name} ({prop}): {"CAUGHT" if code == 1 else f"MISSED (exit {code})"} in '
              f'{time.monotonic() - start:.0f}s')
        for line in lines[:3]:
            print('    ' + line[:260])
        if code != 1:
            missed += 1
            if code == 2:
                print(out[-1200:])
    return 1 if missed else 0


def main(argv: list[str]) -> int:
    if not argv:
        print(__doc__)
        return 2
    mode, rest = argv[0], argv[1:]
    extra = []
    if '--' in rest:
        i = rest.index('--')
        rest, extra = rest[:i], rest[i + 1:]
    if mode == 'sensitivity':
        return sensitivity(rest[0], rest[1:], extra)
    if mode == 'determinism':
        return determinism(rest[0], extra)
    if mode == 'seeded':
        return seeded(rest)
    print(__doc__)
    return 2
