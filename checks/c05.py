"""C05 - registry history is append-only, gap-free and crash-consistent (Engine B, crash points).

Workload: seeded histories of publish / train / read / restart over 1-2 projects against the real
``posix.Registry`` + ``asset.Directory`` on a real per-run directory. Faults: process death before
any mutating file-system call of a publish/commit, or inside any write (torn). Oracle: a fresh
reader process lists and reads back everything after every step and the result must equal the
reference model; after a crash it must equal the model before or after the interrupted operation,
never a listed-but-unreadable item, and the retried operation must behave as that model says.
"""
import collections
import copy
import hashlib
import json
import os
import pathlib
import random
import sys
import time
import typing

from packaging import version as vermod

from crashbox import box as boxmod
from vlib import base

PROP = 'C05'
OPTABLE = 'checks.c05_ops'
VERSIONS = ['0.1', '0.2.dev1', '0.2rc1', '0.2', '0.2.post1', '1', '1.0', '1.0.0', '1.1', '2.0a1', '2', '3.1.4',
            '10', '1!0.1', '2024.5']
PROJECTS = ['alpha', 'beta-x']
MTIME = 1767225600  # fixed mtime for generated sources: zip bytes become a function of the seed


# ------------------------------------------------------------------------------------------------
# workload generation
# ------------------------------------------------------------------------------------------------
def gen_history(rng: random.Random, nops: typing.Optional[int] = None) -> list[dict]:
    nproj = rng.choice([1, 1, 2])
    nops = nops or rng.randint(3, 9)
    ops: list[dict] = []

    def crashspec():
        if rng.random() < 0.45:
            return {'frac': round(rng.random(), 4), 'cutfrac': rng.choice([None, None, 0.0, 0.5, 0.99]),
                    'retry': rng.random() < 0.6}
        return None

    def publish():
        return {'op': 'publish', 'project': rng.choice(PROJECTS[:nproj]), 'version': rng.choice(VERSIONS),
                'kind': rng.choice(['zip', 'zip', 'dir']), 'nfiles': rng.randint(1, 3), 'crash': crashspec()}

    def train():
        k = rng.choice([0, 1, 1, 2, 2, 3])
        sizes = [rng.choice([1, 7, 64, 300, 9000]) for _ in range(k)]
        lose = rng.randrange(k) if k and rng.random() < 0.07 else None
        crash = None if lose is not None else crashspec()
        ioerr = 1 + rng.randrange(14) if crash is None and lose is None and rng.random() < 0.12 else None
        return {'op': 'train', 'project': rng.choice(PROJECTS[:nproj]), 'rel': rng.randint(0, 5),
                'states': [rng.randbytes(n).hex() for n in sizes], 'crash': crash, 'lose': lose, 'ioerr': ioerr}

    ops.append({**publish(), 'crash': crashspec()})
    if rng.random() < 0.2:  # swarm: a deep single-release history with an administrative prune in the middle
        ops[0]['crash'] = None
        ops.extend({**train(), 'project': ops[0]['project']} for _ in range(rng.randint(2, 4)))
        ops.append({'op': 'prune', 'project': ops[0]['project'], 'rel': 0, 'gen': rng.randint(0, 3)})
        nops = len(ops) + rng.randint(1, 3)
    if rng.random() < 0.04:  # swarm: a release with more than nine generations (numbering / ordering beyond one digit)
        ops[0]['crash'] = None
        ops.extend({'op': 'train', 'project': ops[0]['project'], 'rel': 0, 'states': [rng.randbytes(3).hex()], 'crash': None,
                    'lose': None} for _ in range(rng.randint(10, 12)))
        ops.append({'op': 'read', 'project': ops[0]['project'], 'rel': 0, 'gen': rng.randint(0, 11)})
        nops = len(ops) + rng.randint(0, 2)
    if rng.random() < 0.2:
        # swarm: a second tenant's registry appears early; the (uncrashed) processes of the history keep reading both
        ops[0]['crash'] = None
        ops.append({**train(), 'project': ops[0]['project'], 'crash': None, 'lose': None, 'ioerr': None})
        ops.append({'op': 'backup'})
        ops.extend({**train(), 'project': ops[0]['project'], 'crash': None, 'lose': None, 'ioerr': None}
                   for _ in range(rng.randint(1, 3)))
        nops = len(ops) + rng.randint(0, 3)
    if rng.random() < 0.15:  # swarm: two trainers of different releases in two processes, commits interleaved
        first = ops[0]
        first['crash'] = None
        second = {**publish(), 'crash': None, 'version': rng.choice(VERSIONS)}
        ops.append(second)
        ops.append({**train(), 'op': 'begin', 'slot': 0, 'other': False, 'crash': None, 'lose': None,
                    'project': first['project'], 'rel': 0})
        ops.append({**train(), 'op': 'begin', 'slot': 1, 'other': True, 'crash': None, 'lose': None,
                    'project': second['project'], 'rel': 1})
        ops.append({'op': 'commit', 'slot': 0, 'crash': None, 'interleave': round(rng.random(), 3)})
        ops.append({'op': 'commit', 'slot': 0, 'crash': None, 'interleave': None})
        nops = len(ops) + rng.randint(0, 3)
    while len(ops) < nops:
        kind = rng.choices(['publish', 'train', 'restart', 'read', 'mount', 'train_unknown', 'prune', 'begin', 'commit',
                            'backup', 'rebuild', 'archive'], [3, 6, 1.5, 1, 0.7, 0.3, 0.5, 1.6, 2.2, 0.6, 0.6, 0.7])[0]
        if kind == 'backup':
            ops.append({'op': 'backup'})
        elif kind == 'rebuild':
            ops.append({'op': 'rebuild', 'which': rng.randrange(64)})
        elif kind == 'archive':
            ops.append({'op': 'archive', 'project': rng.choice(PROJECTS[:nproj]), 'rel': rng.randint(0, 5),
                        'gen': rng.choice([None, rng.randint(0, 5)])})
        elif kind == 'publish':
            ops.append(publish())
        elif kind == 'train':
            ops.append(train())
        elif kind == 'restart':
            ops.append({'op': 'restart'})
        elif kind == 'read':
            ops.append({'op': 'read', 'project': rng.choice(PROJECTS[:nproj]), 'rel': rng.randint(0, 5),
                        'gen': rng.randint(0, 5)})
        elif kind == 'begin':
            ops.append({**train(), 'op': 'begin', 'slot': rng.randrange(3), 'other': rng.random() < 0.4, 'crash': None,
                        'lose': None})
        elif kind == 'commit':
            ops.append({'op': 'commit', 'slot': rng.randrange(3), 'crash': crashspec(),
                        'interleave': round(rng.random(), 3) if rng.random() < 0.5 else None})
        elif kind == 'prune':
            ops.append({'op': 'prune', 'project': rng.choice(PROJECTS[:nproj]), 'rel': rng.randint(0, 5),
                        'gen': rng.randint(0, 5)})
        elif kind == 'mount':
            ops.append({'op': 'mount', 'project': rng.choice(PROJECTS[:nproj]), 'rel': rng.randint(0, 5)})
        else:
            ops.append({'op': 'train', 'project': rng.choice(PROJECTS[:nproj]), 'rel': None, 'version': '99.9',
                        'states': [rng.randbytes(5).hex()], 'crash': None})
    return ops


# ------------------------------------------------------------------------------------------------
# reference model
# ------------------------------------------------------------------------------------------------
def vkey(text: str) -> vermod.Version:
    return vermod.Version(text)


def pkgname(project: str) -> str:
    return project.replace('-', '_') + '_pkg'


def expected(model: dict) -> dict:
    out = {}
    for project, rels in model.items():
        if not rels:
            continue
        releases = {}
        for ver, rel in rels.items():
            gens = {n: {'tag': {'states': len(g), 'trained': True}, 'states': list(g)}
                    for n, g in rel['gens'].items()}
            releases[ver] = {'manifest': [project, ver, pkgname(project)], 'gens': gens,
                             'raw_gen': sorted(rel['gens'])}
        top = max(rels, key=vkey)
        out[project] = {'releases': releases, 'raw_rel': sorted(rels),
                        'latest': [top, max(rels[top]['gens'], default=None)]}
    return out


def diff(obs: dict, exp: dict) -> list[tuple[str, str]]:
    """Mismatches between an observation and the model's expectation: (class, detail)."""
    out: list[tuple[str, str]] = []
    text = json.dumps(obs, sort_keys=True)
    if sorted(obs) != sorted(exp):
        out.append(('listing-mismatch', f'projects listed {sorted(obs)} expected {sorted(exp)}'))
    for project in sorted(set(obs) & set(exp)):
        o, e = obs[project], exp[project]
        if sorted(o['releases']) != sorted(e['releases']) or o['raw_rel'] != e['raw_rel']:
            out.append(('listing-mismatch', f'{project}: releases listed {sorted(o["releases"])} raw {o["raw_rel"]} '
                                            f'expected {sorted(e["releases"])}'))
        if o['latest'] != e['latest']:
            out.append(('latest-mismatch', f'{project}: latest resolves to {o["latest"]} expected {e["latest"]}'))
        for ver in sorted(set(o['releases']) & set(e['releases'])):
            orel, erel = o['releases'][ver], e['releases'][ver]
            if orel['manifest'] != erel['manifest']:
                klass = 'listed-item-unreadable' if isinstance(orel['manifest'], str) else 'manifest-mismatch'
                out.append((klass, f'{project}/{ver}: manifest {orel["manifest"]}'))
            ogens = {int(k): v for k, v in orel['gens'].items()}
            if sorted(ogens) != sorted(erel['gens']) or orel['raw_gen'] != erel['raw_gen']:
                out.append(('listing-mismatch', f'{project}/{ver}: generations listed {sorted(ogens)} raw '
                                                f'{orel["raw_gen"]} expected {sorted(erel["gens"])}'))
            for gen in sorted(set(ogens) & set(erel['gens'])):
                og, eg = ogens[gen], erel['gens'][gen]
                if isinstance(og['tag'], str):
                    out.append(('listed-item-unreadable', f'{project}/{ver}/{gen}: tag {og["tag"]}'))
                elif og['tag'] != eg['tag']:
                    out.append(('tag-mismatch', f'{project}/{ver}/{gen}: tag {og["tag"]} expected {eg["tag"]}'))
                elif og['states'] != eg['states']:
                    if any(isinstance(s, str) and s.startswith('ERR:') for s in og['states']):
                        out.append(('listed-item-unreadable', f'{project}/{ver}/{gen}: states {og["states"]}'[:300]))
                    else:
                        out.append(('state-mismatch', f'{project}/{ver}/{gen}: states differ from the committed '
                                                      f'run: got {[s[:12] for s in og["states"]]} expected '
                                                      f'{[s[:12] for s in eg["states"]]}'))
    if not out and 'ERR:' in text:
        out.append(('listed-item-unreadable', text[:300]))
    return out


def worst(diffs: list[tuple[str, str]]) -> tuple[str, str]:
    order = ['listed-item-unreadable', 'state-mismatch', 'tag-mismatch', 'manifest-mismatch', 'listing-mismatch',
             'latest-mismatch']
    return sorted(diffs, key=lambda d: order.index(d[0]) if d[0] in order else 99)[0]


# ------------------------------------------------------------------------------------------------
# one simulated run
# ------------------------------------------------------------------------------------------------
class Run:
    """Interpreter of one history."""

    def __init__(self, seed: int, enum: str = 'one', enum_rng: typing.Optional[random.Random] = None,
                 registry: str = 'posix'):
        self.seed = seed
        self.registry = registry  # 'volatile': one process, no durability - only the history half is judged
        self.box = boxmod.Box(OPTABLE, seed, prefix='c05-')
        self.model: dict = {}
        self.digests: dict[str, str] = {}
        self.child: typing.Optional[boxmod.Child] = None
        self.trace: list[dict] = []
        self.events: list = []
        self.stats: collections.Counter = collections.Counter()
        self.shapes: set = set()
        self.samples: list = []
        self.violations: list[dict] = []
        self.enum = enum  # none | one | all
        self.enum_rng = enum_rng or random.Random(seed ^ 0x5EED)
        self.pkgdir = os.path.join(self.box.base, 'pkgs')
        os.mkdir(self.pkgdir)
        self.nchild = 0
        self.slots: dict[int, dict] = {}  # open training handles: slot -> {child, project, ver, states}
        self.other: typing.Optional[boxmod.Child] = None  # a second live process (overlapping trainers)
        self.mirror: typing.Optional[tuple] = None  # (directory name, model at the time of the copy)
        self.nmirror = 0
        self.crash_site = 'main-line'

    # -- helpers -----------------------------------------------------------------------------
    def close(self):
        for child in (self.child, self.other):
            if child:
                child.close()
        self.box.destroy()

    def child_seed(self) -> int:
        self.nchild += 1
        return self.seed * 100003 + self.nchild

    def incarnation(self) -> boxmod.Child:
        if self.child is None or not self.child.alive:
            self.child = boxmod.Child(self.box.root, OPTABLE, self.child_seed(), env={'C05_REGISTRY': self.registry})
            self.stats['incarnations'] += 1
        return self.child

    def oneshot(self, seed: int, name: str, args: dict, crash=None) -> boxmod.Result:
        with boxmod.Child(self.box.root, OPTABLE, seed) as child:
            return child.call(name, args, crash)

    def build_package(self, project: str, version: str, kind: str, nfiles: int) -> str:
        """Driver-side, outside the tracked root, deterministic content."""
        from forml import project as prj  # pylint: disable=import-outside-toplevel

        tag = f'{project}-{version.replace("!", "_")}-{kind}-{nfiles}'
        src = pathlib.Path(self.pkgdir) / f'src-{tag}'
        manifest = prj.Manifest(project, version, pkgname(project))
        if kind == 'zip':
            target = pathlib.Path(self.pkgdir) / f'{tag}.4ml'
        else:
            target = pathlib.Path(self.pkgdir) / f'{tag}.dir'
        if target.exists():
            return str(target)
        pkg = src / pkgname(project)
        pkg.mkdir(parents=True)
        (pkg / '__init__.py').write_text(f'"""{project} {version}"""\n')
        for i in range(nfiles):
            (pkg / f'mod{i}.py').write_text(f'VALUE = "{project}-{version}-{i}"\n' * (1 + 40 * i))
        for path in [*src.rglob('*'), src]:
            os.utime(path, (MTIME, MTIME))
        if kind == 'zip':
            prj.Package.create(src, manifest, target)
        else:
            import shutil  # pylint: disable=import-outside-toplevel

            shutil.copytree(src, target)
            manifest.write(target)
        return str(target)

    def file_digests(self) -> dict[str, str]:
        out = {}
        root = os.path.join(self.box.root, 'registry')
        for dirpath, _, files in os.walk(root, followlinks=True):
            for name in files:
                path = os.path.join(dirpath, name)
                with open(path, 'rb') as handle:
                    out[os.path.relpath(path, root)] = hashlib.sha256(handle.read()).hexdigest()[:16]
        return out

    def tree_shape(self) -> str:
        """Normalised tree fingerprint (uuids -> U) used only to count distinct outcomes."""
        items = []
        root = os.path.join(self.box.root, 'registry')
        for dirpath, dirs, files in os.walk(root, followlinks=True):
            dirs.sort()
            rel = os.path.relpath(dirpath, root)
            items.append(rel + '/')
            for name in sorted(files):
                size = os.path.getsize(os.path.join(dirpath, name))
                base_ = 'U.bin' if name.endswith('.bin') else name
                items.append(f'{rel}/{base_}:{"0" if size == 0 else "n"}')
        return base.digest(sorted(items))

    def protect(self) -> None:
        """Remember the bytes of every file that belongs to a listed item (append-only oracle)."""
        current = self.file_digests()
        for project, rels in self.model.items():
            for ver, rel in rels.items():
                prefixes = [f'{project}/{ver}/package.4ml'] + [f'{project}/{ver}/{g}/' for g in rel['gens']]
                for path, dig in current.items():
                    if any(path == p or path.startswith(p if p.endswith('/') else p + '/') for p in prefixes):
                        self.digests.setdefault(path, dig)

    def check_append_only(self, where: str) -> None:
        current = self.file_digests()
        for path, dig in self.digests.items():
            if current.get(path) != dig:
                raise base.Violation('mutated-history', f'{where}: committed file {path} '
                                                        f'{"vanished" if path not in current else "changed"}')

    def observe_fresh(self) -> dict:
        res = self.oneshot(self.child_seed(), 'observe', {})
        self.stats['fresh_reads'] += 1
        if not res.ok:
            raise base.Violation('reader-failed', f'fresh reader could not list the registry: {res.exc} {res.value}')
        return res.value

    def verify(self, where: str, warm: bool = True) -> None:
        if self.registry == 'volatile':
            res = self.incarnation().call('observe')
            self.stats['warm_reads'] += 1
            if not res.ok:
                raise base.Violation('reader-failed', f'{where}: {res.exc} {res.value}')
            diffs = diff(res.value, expected(self.model))
            self.events.append([where, base.digest(res.value)])
            if diffs:
                klass, detail = worst(diffs)
                raise base.Violation(klass, f'{where}: volatile registry: {detail}')
            return
        obs = self.observe_fresh()
        diffs = diff(obs, expected(self.model))
        self.events.append([where, base.digest(obs)])
        if diffs:
            klass, detail = worst(diffs)
            raise base.Violation(klass, f'{where}: fresh reader: {detail}')
        if warm and self.child is not None and self.child.alive:
            res = self.child.call('observe')
            self.stats['warm_reads'] += 1
            if not res.ok:
                raise base.Violation('reader-failed', f'{where}: warm reader: {res.exc} {res.value}')
            diffs = diff(res.value, expected(self.model))
            if diffs:
                klass, detail = worst(diffs)
                raise base.Violation(klass, f'{where}: warm (same-process) reader: {detail}')
            if self.mirror is not None:
                # the same process also reads the backup copy and the live registry through short-lived registry objects
                for target, model in ((self.mirror[0], self.mirror[1]), ('registry', self.model)) * 3:
                    res = self.child.call('observe', {'where': target})
                    self.stats['reads_through_short_lived_registry_objects'] += 1
                    if not res.ok:
                        raise base.Violation('reader-failed', f'{where}: reader of {target}: {res.exc} {res.value}')
                    diffs = diff(res.value, expected(model))
                    if diffs:
                        klass, detail = worst(diffs)
                        raise base.Violation(klass, f'{where}: same process, registry object made for this read over '
                                                    f'{"the other registry " + target if target != "registry" else "the main registry"}: {detail}')
        self.check_append_only(where)
        self.check_readable_by_others(where)
        self.protect()

    def check_readable_by_others(self, where: str) -> None:
        """"A fresh reader" is in general another account than the trainer (train as one user, serve as another): every
        file and directory of a listed item carries the permissions an ordinary file / directory gets under the
        process umask - not those of a private temporary file it was written through."""
        import stat  # pylint: disable=import-outside-toplevel

        umask = os.umask(0)
        os.umask(umask)
        root = os.path.join(self.box.root, 'registry')
        for project, rels in self.model.items():
            for ver, rel in rels.items():
                tops = [os.path.join(root, project, ver, 'package.4ml')] + [os.path.join(root, project, ver, str(g))
                                                                            for g in rel['gens']]
                for top in tops:
                    paths = [top]
                    if os.path.isdir(top):
                        paths += [os.path.join(d, n) for d, dirs, files in os.walk(top) for n in dirs + files]
                    for path in paths:
                        if not os.path.exists(path):
                            continue
                        mode = stat.S_IMODE(os.stat(path).st_mode)
                        want = (0o055 if os.path.isdir(path) else 0o044) & ~umask
                        if mode & want != want:
                            raise base.Violation('unreadable-for-other-accounts',
                                                 f'{where}: {os.path.relpath(path, root)} has mode {oct(mode)} (umask '
                                                 f'{oct(umask)}): a reader under another account is refused')
                        self.stats['modes_checked'] += 1

    # -- model transitions -------------------------------------------------------------------
    def resolve(self, op: dict) -> tuple[str, dict, typing.Optional[dict], str]:
        """-> (child op name, args, model after success or None if it must be refused, label)."""
        model = self.model
        if op['op'] == 'publish':
            project, ver = op['project'], op['version']
            rels = model.get(project, {})
            args = {'package': self.build_package(project, ver, op['kind'], op['nfiles'])}
            if rels and not vkey(ver) > max(vkey(v) for v in rels):
                return 'publish', args, None, f'publish {project} {ver} ({op["kind"]}) [must be refused]'
            after = copy.deepcopy(model)
            after.setdefault(project, {})[ver] = {'gens': {}}
            return 'publish', args, after, f'publish {project} {ver} ({op["kind"]})'
        assert op['op'] == 'train'
        project = op['project']
        rels = sorted(model.get(project, {}), key=vkey)
        if op.get('rel') is None or not rels:
            ver = op.get('version', '99.9')
            return 'train', {'project': project, 'release': ver, 'states': op['states'], 'lose': None}, None, \
                f'train {project} {ver} [unknown release: must change nothing]'
        ver = rels[op['rel'] % len(rels)]
        targs = {'project': project, 'release': ver, 'states': op['states'], 'lose': op.get('lose')}
        if op.get('lose') is not None and op['states']:
            return 'train', targs, None, f'train {project} {ver} k={len(op["states"])} [a staged state is lost ' \
                                         f'before the commit: must be refused and change nothing]'
        after = copy.deepcopy(model)
        gens = after[project][ver]['gens']
        gens[max(gens, default=0) + 1] = list(op['states'])
        return 'train', targs, after, f'train {project} {ver} k={len(op["states"])}'

    def settle(self, where: str, before: dict, after: typing.Optional[dict]) -> str:
        """After a crash: the fresh observation must be the old or the complete new content."""
        obs = self.observe_fresh()
        self.events.append([where, base.digest(obs)])
        d_before = diff(obs, expected(before))
        if not d_before:
            self.model = before
            return 'before'
        if after is not None:
            d_after = diff(obs, expected(after))
            if not d_after:
                self.model = after
                return 'after'
        else:
            d_after = d_before
        klass, detail = worst(d_after if len(d_after) <= len(d_before) else d_before)
        raise base.Violation('crash-' + klass, f'{where}: neither the previous nor the complete new content: {detail}')

    # -- crash point enumeration -------------------------------------------------------------
    @staticmethod
    def points(oplog: list, full: bool) -> list[dict]:
        pts = []
        for n, kind, _, size in oplog:
            pts.append({'at': n, 'cut': None})
            if kind == 'write' and size and size > 1:
                cuts = sorted({1, size // 2, size - 1}) if full else [size // 2]
                pts.extend({'at': n, 'cut': c} for c in cuts if 0 < c < size)
        pts.append({'at': len(oplog) + 1, 'cut': None})  # completed, but the process dies before returning
        return pts

    def enumerate_op(self, idx: int, op: dict, full: bool) -> None:
        name, args, after, label = self.resolve(op)
        if after is None:
            return
        before = copy.deepcopy(self.model)
        saved_digests = dict(self.digests)
        snap = self.box.snapshot()
        wseed = self.child_seed()
        dry = self.oneshot(wseed, name, args)
        if not dry.ok:
            self.box.restore(snap)
            self.box.drop(snap)
            return  # the main line will report the verdict mismatch
        pts = self.points(dry.oplog, full)
        if not full and len(pts) > 12:
            pts = self.enum_rng.sample(pts, 12)
            pts.sort(key=lambda p: (p['at'], p['cut'] or 0))
        self.stats['ops_enumerated'] += 1
        for point in pts:
            self.box.restore(snap)
            self.model = copy.deepcopy(before)
            self.digests = dict(saved_digests)
            what = dry.oplog[point['at'] - 1] if point['at'] <= len(dry.oplog) else [point['at'], 'return', '', None]
            site = f'{what[1]} {_norm(what[2])}' + (f' cut@{point["cut"]}/{what[3]}' if point['cut'] else '')
            where = f'op{idx} {label} crash before/in [{site}]'
            res = self.oneshot(wseed, name, args, point)
            self.stats['crash_points'] += 1
            self.stats[f'fault:{"torn-write" if point["cut"] else "death-before-" + what[1]}'] += 1
            trace_op = {**op, 'crash': {**point, 'retry': True}}
            try:
                if res.status != 'crashed':
                    raise base.HarnessError(f'{where}: crash point not reached ({res.status} {res.exc})')
                branch = self.settle(where, before, after)
                self.stats[f'settled:{branch}'] += 1
                self.check_append_only(where)
                self.shapes.add((op['op'], op.get('kind'), len(op.get('states', [])), site.split(' cut@')[0],
                                 bool(point['cut']), branch, self.tree_shape()))
                # recovery: the same operation retried by a new process behaves as the model says
                rname, rargs, rafter, rlabel = self.resolve(op)
                res2 = self.oneshot(self.child_seed(), rname, rargs)
                self.stats['retries'] += 1
                rwhere = f'{where} then retry'
                if rafter is None:
                    if res2.ok:
                        raise base.Violation('verdict-mismatch', f'{rwhere}: {rlabel} was accepted')
                else:
                    if not res2.ok:
                        raise base.Violation('retry-refused', f'{rwhere}: {rlabel} failed: {res2.value}')
                    self.model = rafter
                self.verify(rwhere, warm=False)
            except base.Violation as err:
                self.violations.append({**err.as_dict(), 'site': f'{op["op"]}:{op.get("kind", "")}:{site.split(" cut@")[0]}',
                                        'replay_ops': self.trace + [trace_op]})
        # the same points once more as I/O errors: the call fails (a write after `cut` bytes) and the process lives on -
        # exceptions unwind, clean-up code runs. Still: the previous or the complete new content, nothing in between
        epts = [p for p in pts if p['at'] <= len(dry.oplog)]
        if self.enum != 'all' and len(epts) > 10:
            epts = sorted(self.enum_rng.sample(epts, 10), key=lambda p: (p['at'], p['cut'] or 0))
        for point in epts:
            self.box.restore(snap)
            self.model = copy.deepcopy(before)
            self.digests = dict(saved_digests)
            what = dry.oplog[point['at'] - 1]
            site = f'{what[1]} {_norm(what[2])}' + (f' after {point["cut"]}/{what[3]} bytes' if point['cut'] else '')
            where = f'op{idx} {label} with an I/O error in [{site}]'
            res = self.oneshot(wseed, name, args, {**point, 'error': True})
            self.stats['write_error_points'] += 1
            self.stats[f'fault:io-error-in-{what[1]}'] += 1
            try:
                if res.status not in ('ok', 'exc'):
                    raise base.HarnessError(f'{where}: {res.status} {res.exc}')
                branch = self.settle(where, before, after)
                if res.ok and branch == 'before':
                    raise base.Violation('verdict-mismatch', f'{where}: reported success but nothing was committed')
                self.check_append_only(where)
                self.shapes.add((op['op'], op.get('kind'), len(op.get('states', [])), f'io-error {site}', False, branch,
                                 self.tree_shape()))
            except base.Violation as err:
                self.violations.append({**err.as_dict(), 'site': f'{op["op"]}:{op.get("kind", "")}:io-error {what[1]} '
                                                                 f'{_norm(what[2])}',
                                        'replay_ops': self.trace + [{**op, 'crash': {**point, 'error': True, 'retry': False}}]})
        # the same for transient I/O errors: every directory listing the operation makes fails once
        listings = list(range(1, dry.meta.get('listings', 0) + 1))
        if self.enum != 'all' and len(listings) > 8:
            listings = sorted(self.enum_rng.sample(listings, 8))
        for k in listings:
            self.box.restore(snap)
            self.model = copy.deepcopy(before)
            self.digests = dict(saved_digests)
            where = f'op{idx} {label} with a transient I/O error in its directory listing #{k}'
            res = self.oneshot(wseed, name, args, {'ioerr': k})
            self.stats['io_error_points'] += 1
            self.stats['fault:io-error-in-listing'] += 1
            try:
                if res.status not in ('ok', 'exc'):
                    raise base.HarnessError(f'{where}: {res.status} {res.exc}')
                branch = self.settle(where, before, after)
                if res.ok and branch == 'before':
                    raise base.Violation('verdict-mismatch', f'{where}: reported success but nothing was committed')
                self.check_append_only(where)
                self.shapes.add((op['op'], op.get('kind'), len(op.get('states', [])), f'io-error-in-listing#{k}', False,
                                 branch, self.tree_shape()))
            except base.Violation as err:
                self.violations.append({**err.as_dict(), 'site': f'{op["op"]}:{op.get("kind", "")}:io-error-in-listing',
                                        'replay_ops': self.trace + [{**op, 'crash': None, 'ioerr': k}]})
        self.box.restore(snap)
        self.box.drop(snap)
        self.model = before
        self.digests = saved_digests

    # -- main line ---------------------------------------------------------------------------
    def step(self, idx: int, op: dict) -> None:
        kind = op['op']
        self.crash_site = 'main-line'
        if kind == 'restart':
            if self.child:
                self.slots = {k: v for k, v in self.slots.items() if v['child'] is not self.child}
                self.child.close()
                self.child = None
            self.trace.append(op)
            self.stats['restarts'] += 1
            return
        if kind == 'archive':
            # an administrator moves a generation (or a whole release) to another volume and leaves a symbolic link behind
            # (outside forml's API, like 'prune'): the registry reads and grows exactly as before
            self.trace.append(op)
            rels = sorted(self.model.get(op['project'], {}), key=vkey)
            if not rels or self.registry == 'volatile':
                return
            ver = rels[op['rel'] % len(rels)]
            gens = self.model[op['project']][ver]['gens']
            place = os.path.join(self.box.root, 'registry', op['project'], ver)
            if op['gen'] is not None and gens:
                place = os.path.join(place, str(sorted(gens)[op['gen'] % len(gens)]))
            if os.path.islink(place) or not os.path.isdir(place):
                return
            import shutil  # pylint: disable=import-outside-toplevel

            self.narchived = getattr(self, 'narchived', 0) + 1
            vault = os.path.join(self.box.root, 'archive', str(self.narchived))
            os.makedirs(os.path.dirname(vault), exist_ok=True)
            shutil.move(place, vault)
            os.symlink(vault, place)
            self.stats['fault:level-moved-behind-a-symlink'] += 1
            self.verify(f'op{idx} {os.path.relpath(place, self.box.root)} was moved to another volume, a symbolic link left behind')
            return
        if kind == 'rebuild':
            # the user rebuilds an artifact that was published earlier - in place (same file, new bytes; that is what
            # re-running a build does to dist/<project>.4ml): what the registry holds is its own copy and stays as it is
            self.trace.append(op)
            arts = sorted(p for p in pathlib.Path(self.pkgdir).iterdir() if p.suffix in ('.4ml', '.dir'))
            if not arts or self.registry == 'volatile':
                return
            art = arts[op['which'] % len(arts)]
            files = [art] if art.is_file() else sorted(f for f in art.rglob('*') if f.is_file())
            saved = {f: f.read_bytes() for f in files}
            where = f'op{idx} the source artifact {art.name} (published earlier) was rewritten in place'
            try:
                for path in files:
                    with open(path, 'r+b') as handle:
                        handle.truncate(0)
                        handle.write(b'rebuilt in place\n')
                self.stats['fault:source-artifact-rewritten-in-place'] += 1
                self.check_append_only(where)
                self.verify(where)
            finally:
                for path, data in saved.items():
                    with open(path, 'r+b') as handle:
                        handle.truncate(0)
                        handle.write(data)
                    os.utime(path, (MTIME, MTIME))
            return
        if kind == 'backup':
            # another tenant's registry appears next to the main one - same project and release names, other content -
            # and the processes of this history read both, through registry objects made per read that come and go
            self.trace.append(op)
            if self.registry == 'volatile' or not any(self.model.values()):
                return
            self.nmirror += 1
            name = f'tenant{self.nmirror}'
            rng = random.Random(self.seed * 31 + idx)
            tenant: dict = {}
            with boxmod.Child(self.box.root, OPTABLE, self.seed * 101 + idx, env={'C05_ROOTNAME': name}) as child:
                for project, rels in sorted(self.model.items()):
                    for ver in sorted(rels, key=vkey)[:2]:
                        res = child.call('publish', {'package': self.build_package(project, ver, 'dir', 1)})
                        if not res.ok:
                            raise base.HarnessError(f'tenant publish failed: {res.value}')
                        gens = tenant.setdefault(project, {}).setdefault(ver, {'gens': {}})['gens']
                        for gen in range(1, rng.randint(1, 2) + 1):
                            states = [rng.randbytes(5).hex() for _ in range(rng.randint(1, 3))]
                            res = child.call('train', {'project': project, 'release': ver, 'states': states})
                            if not res.ok or res.value != gen:
                                raise base.HarnessError(f'tenant train failed: {res.value}')
                            gens[gen] = states
            self.mirror = (name, tenant)
            self.stats['op:second-registry'] += 1
            return
        if kind == 'begin':
            self.trace.append(op)
            rels = sorted(self.model.get(op['project'], {}), key=vkey)
            if not rels:
                return
            ver = rels[op['rel'] % len(rels)]
            if op.get('other'):
                if self.other is None or not self.other.alive:
                    self.other = boxmod.Child(self.box.root, OPTABLE, self.child_seed())
                    self.stats['incarnations'] += 1
                child = self.other
            else:
                child = self.incarnation()
            res = child.call('train_begin', {'slot': op['slot'], 'project': op['project'], 'release': ver,
                                             'states': op['states']})
            if not res.ok:
                raise base.Violation('verdict-mismatch', f'op{idx} begin training {op["project"]}/{ver}: {res.value}')
            self.slots[op['slot']] = {'child': child, 'project': op['project'], 'ver': ver, 'states': list(op['states'])}
            self.stats['op:begin'] += 1
            self.verify(f'op{idx} begin training {op["project"]}/{ver} (staged only)')
            return
        if kind == 'commit':
            key = sorted(self.slots)[op['slot'] % len(self.slots)] if self.slots else None
            slot = self.slots.pop(key, None)
            op = {**op, 'slot': key}
            if slot is None or not slot['child'].alive or slot['ver'] not in self.model.get(slot['project'], {}):
                self.trace.append({**op, 'crash': None})
                return
            before = copy.deepcopy(self.model)
            after = copy.deepcopy(self.model)
            gens = after[slot['project']][slot['ver']]['gens']
            gens[max(gens, default=0) + 1] = slot['states']
            where = (f'op{idx} commit the training of {slot["project"]}/{slot["ver"]} begun earlier '
                     f'({"another" if slot["child"] is self.other else "same"} process, {len(self.slots)} other open)')
            crash = None
            spec = op.get('crash')
            if spec:
                # the commit of k states is mkdir + k renames + create/write/replace of the tag (+ return)
                at = spec['at'] if 'at' in spec else 1 + int(spec['frac'] * (len(slot['states']) + 5))
                crash = {'at': at, 'cut': None}
            pause = None
            rival = None
            if not crash and op.get('interleave') is not None:
                # another trainer (other release or project, other process) commits while this commit is parked
                # between two of its file-system operations
                rivals = [k for k, v in self.slots.items() if v['child'] is not slot['child'] and v['child'].alive
                          and (v['project'], v['ver']) != (slot['project'], slot['ver'])
                          and v['ver'] in self.model.get(v['project'], {})]
                if rivals:
                    rival = self.slots.pop(rivals[0])
                    pause = {'on': 'mutation', 'at': 1 + int(op['interleave'] * (len(slot['states']) + 4))}
            res = slot['child'].call('train_commit', {'slot': key}, crash, pause)
            if res.status == 'paused':
                rgens = after[rival['project']][rival['ver']]['gens']
                rgens[max(rgens, default=0) + 1] = rival['states']
                rres = rival['child'].call('train_commit', {'slot': rivals[0]})
                self.stats['fault:commit-interleaved-with-another-commit'] += 1
                if not rres.ok or rres.value != max(rgens):
                    raise base.Violation('verdict-mismatch', f'{where}: the rival commit of {rival["project"]}/'
                                                             f'{rival["ver"]} (run while this one was parked) gave '
                                                             f'{rres.value}')
                res = slot['child'].resume()
                where += f' [interleaved with a commit of {rival["project"]}/{rival["ver"]} by another process]'
            elif rival is not None:
                self.slots[rivals[0]] = rival  # the pause point was not reached: the rival stays open
            self.trace.append({**op, 'crash': {**crash, 'retry': False} if crash else None})
            self.stats['op:commit'] += 1
            self.stats['overlapping-trainers'] += 1
            if res.status == 'crashed':
                if slot['child'] is self.child:
                    self.child = None
                    self.slots = {k: v for k, v in self.slots.items() if v['child'] is not slot['child']}
                else:
                    self.other = None
                    self.slots = {k: v for k, v in self.slots.items() if v['child'] is not slot['child']}
                self.stats['crash_points'] += 1
                what = res.oplog[-1]
                self.stats[f'fault:death-before-{what[1]}'] += 1
                self.crash_site = f'commit::{what[1]} {_norm(what[2])}'
                branch = self.settle(where + f' crash@{crash["at"]}', before, after)
                self.stats[f'settled:{branch}'] += 1
                self.check_append_only(where)
                self.protect()
                return
            if not res.ok:
                raise base.Violation('verdict-mismatch', f'{where}: failed with {res.value}')
            if res.value != max(gens):
                raise base.Violation('generation-number', f'{where}: committed as generation {res.value}, expected '
                                                          f'{max(gens)} (highest existing + 1 at commit time)')
            del before
            self.model = after
            self.verify(where)
            return
        if kind == 'prune':
            # an administrator removes a whole generation directory (outside forml's API); later numbering must
            # still be "one above the highest existing one" and nothing else may change
            rels = sorted(self.model.get(op['project'], {}), key=vkey)
            self.trace.append(op)
            if not rels:
                return
            ver = rels[op['rel'] % len(rels)]
            gens = self.model[op['project']][ver]['gens']
            if not gens:
                return
            gen = sorted(gens)[op['gen'] % len(gens)]
            import shutil  # pylint: disable=import-outside-toplevel

            doomed = os.path.join(self.box.root, 'registry', op['project'], ver, str(gen))
            if os.path.islink(doomed):
                doomed, link = os.path.realpath(doomed), doomed
                os.unlink(link)
            shutil.rmtree(doomed)
            del gens[gen]
            self.digests = {k: v for k, v in self.digests.items() if not k.startswith(f'{op["project"]}/{ver}/{gen}/')}
            if self.child:  # caches of a live process may legitimately still hold the pruned item
                self.child.close()
                self.child = None
            self.stats['prunes'] += 1
            self.verify(f'op{idx} prune {op["project"]}/{ver}/{gen}')
            return
        if kind in ('read', 'mount'):
            rels = sorted(self.model.get(op['project'], {}), key=vkey)
            if not rels:
                self.trace.append(op)
                return
            ver = rels[op['rel'] % len(rels)]
            if kind == 'mount':
                res = self.incarnation().call('mount', {'project': op['project'], 'release': ver})
                if not res.ok or not res.value:
                    raise base.Violation('listed-item-unreadable', f'op{idx} mount {op["project"]}/{ver}: {res.value}')
                self.stats['mounts'] += 1
            else:
                gens = self.model[op['project']][ver]['gens']
                if gens:
                    gen = sorted(gens)[op['gen'] % len(gens)]
                    res = self.incarnation().call('read_explicit', {'project': op['project'], 'release': ver,
                                                                    'generation': gen})
                    if not res.ok or res.value != gens[gen]:
                        raise base.Violation('state-mismatch', f'op{idx} explicit read {op["project"]}/{ver}/{gen}: '
                                                               f'{str(res.value)[:200]}')
                    self.stats['explicit_reads'] += 1
            self.trace.append(op)
            return
        name, args, after, label = self.resolve(op)
        before = copy.deepcopy(self.model)
        crash = op.get('crash')
        resolved = None
        if crash and after is not None:
            if 'at' in crash:
                resolved = {'at': crash['at'], 'cut': crash.get('cut'), 'retry': crash.get('retry', False)}
                if crash.get('error'):
                    resolved['error'] = True
            else:
                snap = self.box.snapshot()
                dry = self.oneshot(self.child_seed(), name, args)
                self.box.restore(snap)
                self.box.drop(snap)
                if dry.ok and dry.oplog:
                    at = 1 + int(crash['frac'] * (len(dry.oplog) + 1))
                    at = min(at, len(dry.oplog) + 1)
                    what = dry.oplog[at - 1] if at <= len(dry.oplog) else [at, 'return', '', None]
                    cut = None
                    if what[1] == 'write' and crash.get('cutfrac') is not None and what[3] and what[3] > 1:
                        cut = max(1, min(what[3] - 1, int(crash['cutfrac'] * what[3])))
                    resolved = {'at': at, 'cut': cut, 'retry': crash.get('retry', False)}
        executed = {**op, 'crash': resolved}
        where = f'op{idx} {label}' + (f' crash@{resolved["at"]}' + (f'/cut{resolved["cut"]}' if resolved["cut"] else '')
                                      if resolved else '')
        ioerr = op.get('ioerr') if not resolved and after is not None else None
        if ioerr:
            where += f' [transient I/O error in its directory listing #{ioerr}]'
        res = self.incarnation().call(name, args, {'at': resolved['at'], 'cut': resolved['cut'],
                                                   'error': bool(resolved.get('error'))} if resolved
                                      else {'ioerr': ioerr} if ioerr else None)
        if resolved and resolved.get('error') and res.status in ('ok', 'exc'):
            self.trace.append(executed)
            self.stats[f'op:{kind}'] += 1
            self.crash_site = f'{kind}:io-error'
            where += ' [as an I/O error, the process lives on]'
            branch = self.settle(where, before, after)
            self.stats[f'settled:{branch}'] += 1
            if res.ok and branch == 'before':
                raise base.Violation('verdict-mismatch', f'{where}: reported success but nothing was committed')
            self.check_append_only(where)
            self.protect()
            return
        if ioerr and any(e[1] == 'io-error-in-listing' for e in res.oplog):
            # the fault fired: the operation may fail (then nothing may have changed) or may have got through; either way
            # the registry is the old or the complete new content and every committed file is untouched
            self.trace.append(executed)
            self.stats[f'op:{kind}'] += 1
            self.stats['fault:io-error-in-listing'] += 1
            self.crash_site = f'{kind}:io-error-in-listing'
            branch = self.settle(where, before, after)
            self.stats[f'settled:{branch}'] += 1
            if res.ok and branch == 'before':
                raise base.Violation('verdict-mismatch', f'{where}: reported success but nothing was committed')
            if kind == 'train' and res.ok and res.value != max(after[args['project']][args['release']]['gens']):
                raise base.Violation('generation-number', f'{where}: committed as generation {res.value}')
            self.check_append_only(where)
            self.protect()
            return
        self.trace.append(executed)
        self.stats[f'op:{kind}'] += 1
        if res.status == 'crashed':
            self.child = None
            self.stats['crash_points'] += 1
            what = res.oplog[-1]
            self.stats[f'fault:{"torn-write" if resolved["cut"] else "death-before-" + what[1]}'] += 1
            self.crash_site = f'{op["op"]}:{op.get("kind", "")}:{what[1]} {_norm(what[2])}'
            branch = self.settle(where, before, after)
            self.stats[f'settled:{branch}'] += 1
            self.check_append_only(where)
            self.protect()
            self.shapes.add((op['op'], op.get('kind'), len(op.get('states', [])), f'{what[1]} {_norm(what[2])}',
                             bool(resolved['cut']), branch, self.tree_shape()))
            if resolved['retry']:
                rname, rargs, rafter, rlabel = self.resolve(op)
                res2 = self.incarnation().call(rname, rargs)
                self.stats['retries'] += 1
                if rafter is None:
                    if res2.ok:
                        raise base.Violation('verdict-mismatch', f'{where} then retry: {rlabel} was accepted')
                else:
                    if not res2.ok:
                        raise base.Violation('retry-refused', f'{where} then retry: {rlabel} failed: {res2.value}')
                    self.model = rafter
                self.verify(f'{where} then retry')
            return
        if res.status == 'died':
            raise base.HarnessError(f'{where}: child died: {res.exc}')
        if after is None:
            if res.ok and kind == 'publish':
                raise base.Violation('verdict-mismatch', f'{where}: was accepted')
            self.stats['refused'] += 1
            if op.get('lose') is not None:
                self.stats['fault:lost-staged-state'] += 1
        else:
            if not res.ok:
                raise base.Violation('verdict-mismatch', f'{where}: failed with {res.value}')
            if kind == 'train' and res.value != max(after[args['project']][args['release']]['gens']):
                raise base.Violation('generation-number', f'{where}: committed as generation {res.value}, expected '
                                                          f'{max(after[args["project"]][args["release"]]["gens"])}')
            self.model = after
        self.verify(where)

    def run(self, ops: list[dict]) -> None:
        enum_idx = set()
        mutating = [i for i, op in enumerate(ops) if op['op'] in ('publish', 'train')]
        if self.enum == 'all':
            enum_idx = set(mutating)
        elif self.enum == 'one' and mutating:
            enum_idx = {self.enum_rng.choice(mutating)}
        for idx, op in enumerate(ops):
            if idx in enum_idx:
                self.enumerate_op(idx, op, full=True)
            self.step(idx, op)


def _norm(rel: str) -> str:
    parts = []
    pieces = rel.split('/')
    for i, part in enumerate(pieces):
        if part.endswith('.bin'):
            part = '<sid>.bin'
        parts.append(part)
        if 'package.4ml' in part and i < len(pieces) - 1:
            parts.append('**')
            break
    # project / release / generation directories are positional
    if parts and parts[0] == 'registry':
        generic = ['registry', '<project>', '<release>']
        parts = generic[:min(3, len(parts))] + parts[3:]
        if len(parts) > 3 and parts[3].isdigit():
            parts[3] = '<gen>'
    return '/'.join(parts)


# ------------------------------------------------------------------------------------------------
# seed-level entry points (run inside pool workers)
# ------------------------------------------------------------------------------------------------
def run_seed(job: tuple) -> dict:
    seed, enum = job
    rng = random.Random(seed)
    ops = gen_history(rng)
    registry = 'volatile' if seed % 10 == 9 else 'posix'
    if registry == 'volatile':
        ops = [{**o, 'crash': None, 'other': False, 'interleave': None, 'kind': 'dir'} if o['op'] in
               ('publish', 'train', 'begin', 'commit') else o for o in ops if o['op'] not in ('restart', 'prune', 'mount')
               and not o.get('lose')]
    run = Run(seed, 'none' if registry == 'volatile' else enum, registry=registry)
    out = {'seed': seed, 'violations': [], 'harness': None}
    try:
        try:
            run.run(ops)
        except base.Violation as err:
            out['violations'].append({**err.as_dict(), 'site': run.crash_site, 'replay_ops': list(run.trace)})
        except base.HarnessError as err:
            out['harness'] = str(err)
        out['violations'].extend(run.violations)
        out['stats'] = dict(run.stats)
        out['shapes'] = [base.digest(s) for s in run.shapes]
        out['digest'] = base.digest(run.events)
        out['nops'] = len(ops)
        out['stats'][f'registry:{registry}'] = 1
        out['sample'] = {'seed': seed, 'ops': [_brief(o) for o in run.trace]}
    finally:
        run.close()
    return out


def _brief(op: dict) -> dict:
    op = dict(op)
    if 'states' in op:
        op['states'] = [f'{len(s) // 2}B' for s in op['states']]
    return op


def replay_ops(seed: int, ops: list[dict]) -> typing.Optional[dict]:
    """Re-execute a recorded trace exactly (crash points are explicit). -> violation dict or None."""
    run = Run(seed, enum='none')
    try:
        try:
            run.run(ops)
        except base.Violation as err:
            return {**err.as_dict(), 'digest': base.digest(run.events)}
        return None
    finally:
        run.close()


def minimise(seed: int, ops: list[dict], klass: str) -> list[dict]:
    head, last = ops[:-1], ops[-1]

    def fails(sub: list) -> bool:
        got = replay_ops(seed, sub + [last])
        return got is not None and got['class'] == klass

    if len(head) >= 1 and fails([]):
        return [last]
    if len(head) >= 2:
        head = base.ddmin(head, fails, max_tests=40)
    return head + [last]


def match_finding(violation: dict, findings: list[dict]) -> typing.Optional[dict]:
    for finding in findings:
        sig = finding.get('signature', {})
        if sig.get('class') == violation['class'] and sig.get('site') == violation.get('site'):
            return finding
    return None


def run_seed_isolated(job) -> dict:
    """One history = one process tree grown from the worker's frozen zygote image: what the worker ran before (and so
    the object addresses its children would inherit) has no say in this history."""
    from detsim import runner as runmod  # pylint: disable=import-outside-toplevel

    try:
        return runmod.fork_run(run_seed, job, real_timeout=1150)
    except runmod.RunFailed as err:
        raise base.HarnessError(str(err)[:1500]) from None


def main(argv: list[str]) -> int:
    import argparse  # pylint: disable=import-outside-toplevel

    parser = argparse.ArgumentParser(prog='check.py C05')
    parser.add_argument('--tier', default=None)
    parser.add_argument('--replay', default=None)
    parser.add_argument('--seeds', type=int, default=None)
    parser.add_argument('--budget', type=float, default=None)
    args = parser.parse_args(argv)
    # zygote image: import everything once, children fork from here
    import forml.project  # noqa: F401 pylint: disable=import-outside-toplevel,unused-import
    import checks.c05_ops  # noqa: F401 pylint: disable=import-outside-toplevel,unused-import

    if args.replay:
        doc = json.loads(pathlib.Path(args.replay).read_text())
        got = replay_ops(doc['seed'], doc['ops'])
        print(f'replay seed={doc["seed"]} expected={doc["violation"]["class"]} got={got and got["class"]} '
              f'digest={got and got["digest"]} recorded_digest={doc.get("digest")}')
        if got and got['class'] == doc['violation']['class']:
            print(f'VIOLATION property={PROP} replay={args.replay}')
            print(f'  {got["detail"]}')
            return base.EXIT_VIOLATION
        return base.EXIT_OK

    tier = base.tier(args.tier)
    seed0 = base.base_seed()
    nseeds = args.seeds or (288 if tier == 'quick' else 2400)
    budget = args.budget or (42 if tier == 'quick' else 1500)
    enum = 'one' if tier == 'quick' else 'all'
    print(f'{PROP} seed={seed0} tier={tier} seeds={nseeds} budget={budget}s enum={enum}')
    base.clean_replays(PROP)
    start = time.monotonic()
    jobs = [(seed0 * 1000 + i, enum) for i in range(nseeds)]
    results, errors, exhausted = base.sweep(run_seed_isolated, jobs, budget, per_item_limit_s=1200)
    base.emit_digests(results)
    findings = base.open_findings(PROP)
    stats: collections.Counter = collections.Counter()
    shapes: set = set()
    histories: set = set()
    violations = []
    samples = []
    for res in results:
        stats.update(res.get('stats', {}))
        shapes.update(res.get('shapes', []))
        histories.add(res.get('digest'))
        if res.get('harness'):
            errors.append(f'seed {res["seed"]}: {res["harness"]}')
        for vio in res['violations']:
            violations.append((res['seed'], vio))
        if len(samples) < 3 and res.get('sample'):
            samples.append(res['sample'])
    reported: dict = {}
    known: dict = {}
    for seed, vio in violations:
        finding = match_finding(vio, findings)
        key = (vio['class'], vio.get('site'))
        if finding:
            known.setdefault(finding['id'], (seed, vio))
        else:
            reported.setdefault(key, (seed, vio))
    for fid, (seed, vio) in sorted(known.items()):
        print(f'KNOWN-FINDING: property={PROP} {fid}: {vio["detail"][:200]}')
    nviol = 0
    for (klass, site), (seed, vio) in sorted(reported.items()):
        ops = minimise(seed, vio['replay_ops'], klass)
        got = replay_ops(seed, ops)
        if not got or got['class'] != klass:
            ops, got = vio['replay_ops'], replay_ops(seed, vio['replay_ops'])
        path = base.write_replay(PROP, f'{seed}-{nviol}', {
            'property': PROP, 'seed': seed, 'tier': tier, 'engine': 'B', 'ops': ops, 'schedule': None,
            'violation': {'class': klass, 'site': site, 'detail': (got or vio)['detail']},
            'digest': got and got.get('digest')})
        print(f'VIOLATION property={PROP} replay={path}')
        print(f'  class={klass} site={site}: {(got or vio)["detail"][:300]}')
        nviol += 1
    wall = time.monotonic() - start
    evaluations = stats.get('crash_points', 0) + stats.get('io_error_points', 0)
    coverage = {
        'evaluations': int(evaluations),
        'distinct_nontrivial': len(shapes),
        'rule': 'one evaluation = one fault injected into a publish or commit executed by real forml code - a process death '
                'before a numbered mutating file-system call, inside a write (torn) or after completion, or a transient '
                'I/O error in a numbered directory listing - followed by a fresh-process read-back compared with the '
                'reference model and (for deaths) a retried operation; distinct = distinct (operation shape, fault site, '
                'torn?, settled branch, normalised resulting tree) tuples; all are non-trivial (each lands inside an '
                'operation that has in-flight state)',
        'samples': samples,
        'histories': len(results), 'distinct_history_digests': len(histories),
        'seeds': [jobs[0][0], jobs[len(results) - 1][0]] if results else [],
        'all_crash_points_of_enumerated_ops': True,
        'exhaustive': False,
        'fault_kinds_fired': {k[6:]: v for k, v in stats.items() if k.startswith('fault:')},
        'settled': {k[8:]: v for k, v in stats.items() if k.startswith('settled:')},
        'counters': {k: v for k, v in stats.items() if ':' not in k},
        'histories_by_registry': {k[9:]: v for k, v in stats.items() if k.startswith('registry:')},
        'runs_per_hour': round(len(results) / wall * 3600) if wall else 0,
        'crash_points_per_hour': round(evaluations / wall * 3600) if wall else 0,
        'real_components': ['posix.Registry', 'volatile.Registry (every tenth history: one process, history half only)', 'asset.Directory/Project/Release/Generation/Tag', 'asset.State',
                            'asset.Instance', 'project.Package/Manifest (zip and directory packages)',
                            'real file system under a per-run directory', 'OS processes (fork per incarnation)'],
        'stubbed_components': ['uuid4/random (seeded per incarnation)', 'datetime.utcnow in minor.py (virtual)',
                               'file-system entry points wrapped for crash points (pass-through otherwise)'],
        'sweep_completed': exhausted, 'harness_errors': len(errors),
    }
    base.write_evidence(PROP, tier, seed0, 'fault_enumeration', coverage, wall, nviol, [
        'process death = SIGKILL with surviving page cache (completed system calls are durable); power loss, '
        'disk errors and full disks are not injected',
        'one writer at a time (the property quantifies over histories and crash points, not over concurrent writers)',
        'version order of the reference model is packaging.version.Version',
        'mlflow registry excluded (needs a tracking server)'])
    print(f'{PROP}: histories={len(results)} crash_points={evaluations} distinct_outcomes={len(shapes)} '
          f'violations={nviol} known={len(known)} harness_errors={len(errors)} wall={wall:.1f}s')
    if errors:
        for err in errors[:5]:
            print('HARNESS-ERROR:', err[:600], file=sys.stderr)
    if nviol:
        return base.EXIT_VIOLATION
    if errors and not results:
        return base.EXIT_HARNESS
    return base.EXIT_HARNESS if errors else base.EXIT_OK
