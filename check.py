#!/venv/bin/python
"""Entry point: check.py <ID> [--tier quick|thorough] [--replay FILE] ...

Exit codes: 0 = property held on everything explored (after one KNOWN-FINDING line per open finding
met), 1 = at least one `VIOLATION property=<id> replay=<path>` line, 2 = harness error.
"""
import importlib
import os
import sys

sys.path.insert(0, os.path.dirname(os.path.abspath(__file__)))

from vlib import base  # noqa: E402  pylint: disable=wrong-import-position


def main() -> int:
    base.reexec()
    if len(sys.argv) < 2:
        print(__doc__)
        return base.EXIT_HARNESS
    prop = sys.argv[1].lower()
    try:
        module = importlib.import_module(f'checks.{prop}')
    except ModuleNotFoundError as err:
        print(f'unknown check {prop}: {err}', file=sys.stderr)
        return base.EXIT_HARNESS
    try:
        return module.main(sys.argv[2:])
    except SystemExit:
        raise
    except BaseException as err:  # pylint: disable=broad-except
        import traceback

        traceback.print_exc()
        print(f'HARNESS-ERROR: {type(err).__name__}: {err}', file=sys.stderr)
        return base.EXIT_HARNESS


if __name__ == '__main__':
    sys.exit(main())
