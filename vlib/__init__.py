"""Shared plumbing for the formlio/forml deterministic-simulation checks."""
