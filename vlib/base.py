"""Seed/tier handling, self re-exec, parallel seed sweeps, evidence and known-finding protocol.

Nothing in this module draws random numbers or reads a clock on behalf of a simulated run: wall
clock is only read for the evidence "wall_s" and the sweep budget.
"""
import concurrent.futures
import faulthandler
import hashlib
import json
import multiprocessing
import os
import pathlib
import signal
import sys
import time
import traceback
import typing

VERIF = pathlib.Path(__file__).resolve().parent.parent
REPLAYS = VERIF / 'replays'
EVIDENCE = VERIF / 'evidence'
FINDINGS = VERIF / 'known_findings.json'
DEFAULT_SEED = 20261001
EXIT_OK, EXIT_VIOLATION, EXIT_HARNESS = 0, 1, 2


def reexec() -> None:
    """Make the interpreter state a function of the command line only: fixed hash seed, no .pyc
    writes, unbuffered output. Called first thing by every entry point."""
    if os.environ.get('PYTHONHASHSEED') != os.environ.get('VERIF_HASHSEED', '0') or not sys.flags.dont_write_bytecode \
            or os.environ.get('VERIF_REEXEC') != '1':
        env = dict(os.environ)
        env['VERIF_REEXEC'] = '1'
        # address space layout randomisation off for the new image and everything forked from it: objects hashed by
        # identity (sets of nodes, id()-keyed memos) iterate / collide the same way in every run of a seed
        try:
            import ctypes  # pylint: disable=import-outside-toplevel

            libc = ctypes.CDLL(None, use_errno=True)
            current = libc.personality(0xFFFFFFFF)
            if current != -1:
                libc.personality(current | 0x0040000)  # ADDR_NO_RANDOMIZE
        except Exception:  # pylint: disable=broad-except
            pass  # not available: runs stay correct, identity-order effects just are not repeatable
        env['PYTHONHASHSEED'] = env.get('VERIF_HASHSEED', '0')
        env['PYTHONDONTWRITEBYTECODE'] = '1'
        env['PYTHONUNBUFFERED'] = '1'
        env.setdefault('PYTHONWARNINGS', 'ignore')
        os.execve(sys.executable, [sys.executable, '-B', *sys.argv], env)


def base_seed() -> int:
    try:
        return int(os.environ.get('VERIF_SEED', DEFAULT_SEED))
    except ValueError:
        return DEFAULT_SEED


def tier(argv_tier: typing.Optional[str] = None) -> str:
    value = argv_tier or os.environ.get('VERIF_TIER') or 'quick'
    return value if value in ('quick', 'thorough') else 'quick'


def workers() -> int:
    return int(os.environ.get('VERIF_WORKERS', os.cpu_count() or 4))


def digest(obj: typing.Any) -> str:
    return hashlib.sha256(json.dumps(obj, sort_keys=True, default=repr).encode()).hexdigest()[:16]


class Violation(Exception):
    """A property violation found by an oracle (never a harness problem)."""

    def __init__(self, klass: str, detail: str, **extra):
        super().__init__(f'{klass}: {detail}')
        self.klass = klass
        self.detail = detail
        self.extra = extra

    def as_dict(self) -> dict:
        return {'class': self.klass, 'detail': self.detail, **self.extra}


class HarnessError(Exception):
    """The simulator itself failed; never turned into a verdict."""


def _worker_init() -> None:
    faulthandler.enable()
    signal.signal(signal.SIGINT, signal.SIG_IGN)
    try:  # runs of Engine A start from one frozen image per worker, whatever the worker ran before
        from detsim import runner  # pylint: disable=import-outside-toplevel

        runner.USE_ZYGOTE = True
        if 'forml' in sys.modules:  # (an Engine A / B check: the image is complete - freeze it before the first job)
            runner.start_zygote()
    except ImportError:
        pass


def _guard(fn, arg, limit):
    """Run one seed with a real-time watchdog: a stuck run is a harness error, never a verdict."""
    faulthandler.dump_traceback_later(limit, exit=True)
    try:
        return ('ok', fn(arg))
    except BaseException as err:  # pylint: disable=broad-except
        return ('harness', f'{type(err).__name__}: {err}\n{traceback.format_exc()}')
    finally:
        faulthandler.cancel_dump_traceback_later()


def sweep(fn: typing.Callable, args: typing.Iterable, budget_s: float, per_item_limit_s: int = 300,
          nworkers: typing.Optional[int] = None, on_result=None) -> tuple[list, list, bool]:
    """Run fn over args on a fork pool until the list is exhausted or the wall budget is spent.

    Returns (results in submission order for the completed items, harness errors, exhausted?).
    Results of items that did not start before the budget ran out are simply absent.
    """
    nworkers = nworkers or workers()
    ctx = multiprocessing.get_context('fork')
    start = time.monotonic()
    results: dict[int, typing.Any] = {}
    errors: list[str] = []
    args = list(args)
    pending: dict = {}
    nxt = 0
    exhausted = True
    with concurrent.futures.ProcessPoolExecutor(nworkers, mp_context=ctx, initializer=_worker_init) as pool:
        try:
            while nxt < len(args) or pending:
                while nxt < len(args) and len(pending) < nworkers * 2:
                    if time.monotonic() - start > budget_s:
                        exhausted = False
                        nxt = len(args)
                        break
                    pending[pool.submit(_guard, fn, args[nxt], per_item_limit_s)] = nxt
                    nxt += 1
                if not pending:
                    break
                done, _ = concurrent.futures.wait(pending, timeout=per_item_limit_s + 30,
                                                  return_when=concurrent.futures.FIRST_COMPLETED)
                if not done:
                    errors.append('sweep: no worker progress within the per-item limit')
                    break
                for fut in done:
                    idx = pending.pop(fut)
                    try:
                        status, value = fut.result()
                    except BaseException as err:  # worker died (watchdog exit)
                        errors.append(f'worker died on item {idx}: {type(err).__name__}: {err}')
                        continue
                    if status == 'ok':
                        results[idx] = value
                        if on_result:
                            on_result(idx, value)
                    else:
                        errors.append(f'item {idx}: {value}')
        finally:
            for fut in pending:
                fut.cancel()
            procs = list((getattr(pool, '_processes', None) or {}).values())
            pool.shutdown(wait=not pending, cancel_futures=True)  # orderly unless a worker is stuck
            for proc in procs if pending else []:
                try:
                    proc.kill()
                except Exception:  # pylint: disable=broad-except
                    pass
    return [results[i] for i in sorted(results)], errors, exhausted


def load_findings(prop: str) -> list[dict]:
    if not FINDINGS.exists():
        return []
    return [f for f in json.loads(FINDINGS.read_text()) if f['property'] == prop]


def open_findings(prop: str) -> list[dict]:
    return [f for f in load_findings(prop) if f.get('status') == 'open']


def write_replay(prop: str, seed: int, payload: dict) -> pathlib.Path:
    REPLAYS.mkdir(exist_ok=True)
    path = REPLAYS / f'{prop}-{seed}.json'
    path.write_text(json.dumps(payload, indent=1, sort_keys=True, default=repr))
    return path


def write_evidence(prop: str, tier_: str, seed: int, level: str, coverage: dict, wall_s: float, violations: int,
                   assumptions: list[str], extra: typing.Optional[dict] = None) -> None:
    if os.environ.get('VERIF_NO_EVIDENCE'):
        return
    EVIDENCE.mkdir(exist_ok=True)
    doc = {'property_id': prop, 'tier': tier_, 'seed': seed, 'level': level, 'coverage': coverage,
           'assumptions': assumptions, 'wall_s': round(wall_s, 2), 'violations': violations}
    if extra:
        doc.update(extra)
    (EVIDENCE / f'{prop}.json').write_text(json.dumps(doc, indent=1, sort_keys=True, default=repr) + '\n')


def ddmin(items: list, fails: typing.Callable[[list], bool], max_tests: int = 200) -> list:
    """Delta-debugging minimisation of a list; `fails(sub)` is True when the same violation class
    still reproduces. Deterministic: no randomness, no clocks."""
    tests = 0
    n = 2
    items = list(items)
    while len(items) >= 2 and tests < max_tests:
        chunk = max(1, len(items) // n)
        subsets = [items[i:i + chunk] for i in range(0, len(items), chunk)]
        reduced = False
        for i in range(len(subsets)):
            complement = [x for j, s in enumerate(subsets) if j != i for x in s]
            tests += 1
            if complement and fails(complement):
                items = complement
                n = max(n - 1, 2)
                reduced = True
                break
            if tests >= max_tests:
                break
        if not reduced:
            if n >= len(items):
                break
            n = min(len(items), n * 2)
    return items


def emit_digests(results: list[dict]) -> None:
    """For the determinism self-test: one line per seed with the digest of its event log."""
    if os.environ.get('VERIF_DIGESTS'):
        for res in results:
            print(f'DIGEST {res["seed"]} {res.get("digest")}')


def clean_replays(prop: str) -> None:
    """Drop replay files of earlier runs of this property (they belong to another tree state)."""
    if REPLAYS.exists() and not os.environ.get('VERIF_NO_EVIDENCE'):
        for path in REPLAYS.glob(f'{prop}-*.json'):
            path.unlink()
