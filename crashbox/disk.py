"""File-system interposition for Engine B ("crashbox").

Installed *inside a forked child only*. Every mutating file-system call whose path lies under the
tracked root is a numbered crash point: the child appends ``[n, kind, relpath, size]`` to the op log
and, when ``n`` equals the crash index supplied by the driver, dies with ``os._exit(137)`` *before*
executing the call (so calls ``1..n-1`` are durable and nothing else is - no ``finally``, no
``__exit__``, no buffered flush runs: what SIGKILL leaves behind with a surviving page cache).
A ``write`` can additionally be cut: the first ``k`` bytes reach the file, then the child dies.

Write-mode ``open`` is rebuilt the way ``_pyio.open`` does it over a ``FileIO`` subclass, so crash
points coincide with the raw ``write(2)`` calls the buffered layer issues (data still sitting in a
``BufferedWriter`` at the time of death is lost, as in reality).
"""
import builtins
import io
import os
import shutil
import typing

REAL = {
    'open': builtins.open,
    'mkdir': os.mkdir,
    'rename': os.rename,
    'replace': os.replace,
    'unlink': os.unlink,
    'remove': os.remove,
    'rmdir': os.rmdir,
    'symlink': os.symlink,
    'link': os.link,
    'truncate': os.truncate,
    'listdir': os.listdir,
    'scandir': os.scandir,
}


class Crash(BaseException):
    """Never raised to forml code: the child exits instead. Exists for in-process unit tests."""


class Disk:
    """Crash-point bookkeeping of one child."""

    def __init__(self, root: str, on_crash: typing.Callable[[], None]):
        self.root = os.path.realpath(root) + os.sep
        self.n = 0
        self.log: list[list] = []
        self.crash_at: typing.Optional[int] = None
        self.cut: typing.Optional[int] = None
        self.on_crash = on_crash
        self.enabled = False
        # pause points: the n-th tracked *read* open parks the process until the driver resumes it
        self.reads = 0
        self.pause_at: typing.Optional[int] = None
        self.pause_match: tuple = ()
        self.on_pause: typing.Optional[typing.Callable[[], None]] = None
        self.on_point: typing.Optional[typing.Callable[[], None]] = None  # scheduling hook (crashbox.threads)
        # transient I/O error: the n-th tracked directory listing of the operation raises OSError(EMFILE)
        self.listings = 0
        self.ioerr_at: typing.Optional[int] = None
        # transient read error: opening the n-th tracked file for reading (of those whose name matches) raises EIO
        self.readerr_at: typing.Optional[int] = None
        self.readerr_match: tuple = ()
        self.opens = 0
        # directory entries come back in an order the file system picks (hash order on ext4, creation order on
        # tmpfs): here it is a seeded permutation, a function of (seed, listing number of the operation, path)
        self.order_seed: typing.Optional[int] = None
        self.permuted = 0
        self.error_mode = False
        self.failed_paths: set = set()

    def permute(self, path, names: list) -> list:
        if self.order_seed is None or len(names) < 2:
            return names
        import random  # pylint: disable=import-outside-toplevel

        names = sorted(names, key=lambda n: n if isinstance(n, (str, bytes)) else n.name)
        random.Random(f'{self.order_seed}/{self.listings}/{self.rel(path)}').shuffle(names)
        self.permuted += 1
        return names

    # -- per operation -----------------------------------------------------------------------
    def begin(self, crash: typing.Optional[dict], pause: typing.Optional[dict] = None) -> None:
        self.n = 0
        self.reads = 0
        self.listings = 0
        self.ioerr_at = crash.get('ioerr') if crash else None
        self.readerr_at = crash.get('read_error') if crash else None
        self.readerr_match = tuple(crash.get('read_match', ())) if crash else ()
        self.opens = 0
        if crash and 'at' not in crash:
            crash = None
        mutation = bool(pause and pause.get('on') == 'mutation')
        self.pause_at = pause['at'] if pause and not mutation else None
        self.pause_mutation = pause['at'] if mutation else None  # park before the n-th tracked mutation instead
        self.pause_match = tuple(pause.get('match', ())) if pause else ()
        self.log = []
        self.crash_at = crash['at'] if crash else None
        self.cut = crash.get('cut') if crash else None
        # error mode: the call at the crash index fails with an OSError instead of the process dying there (a write
        # first gets `cut` bytes through: disk full / quota / medium error); the process lives on, exceptions unwind,
        # finally-blocks and __exit__s run - and every later write to the same file fails as well
        self.error_mode = bool(crash and crash.get('error'))
        self.failed_paths: set = set()
        self.enabled = True

    def end(self) -> list[list]:
        """The operation completed; crash index N+1 means: die now, before anybody is told."""
        self.enabled = False
        if self.crash_at is not None and self.crash_at == self.n + 1:
            self.log.append([self.n + 1, 'return', '', None])
            self.on_crash()
        return self.log

    # -- crash points ------------------------------------------------------------------------
    def tracked(self, path) -> bool:
        if not self.enabled or isinstance(path, int):
            return False
        try:
            path = os.path.abspath(os.fspath(path))
        except TypeError:
            return False
        if isinstance(path, bytes):
            path = os.fsdecode(path)
        return (path + os.sep).startswith(self.root) or os.path.realpath(path).startswith(self.root)

    def rel(self, path) -> str:
        path = os.path.realpath(os.fspath(path))
        return path[len(self.root):] if path.startswith(self.root) else path

    def listing_point(self, path) -> None:
        self.listings += 1
        if self.ioerr_at == self.listings:
            self.ioerr_at = None
            self.log.append([self.n, 'io-error-in-listing', self.rel(path), None])
            raise OSError(24, 'injected: too many open files', os.fspath(path))

    def read_point(self, path) -> None:
        """A tracked read is about to be opened (scheduling point between two processes / threads)."""
        if self.on_point:
            self.on_point()
        if self.readerr_at is not None and self.enabled:
            name = os.fspath(path)
            if not self.readerr_match or name.endswith(self.readerr_match):
                self.opens += 1
                if self.opens == self.readerr_at:
                    self.readerr_at = None
                    self.log.append([self.n, 'io-error-in-read', self.rel(path), None])
                    raise OSError(5, 'injected: I/O error', name)
        if self.pause_at is None:
            return
        name = os.fspath(path)
        if self.pause_match and not name.endswith(self.pause_match):
            return
        self.reads += 1
        if self.reads == self.pause_at and self.on_pause:
            self.log.append([self.n, 'paused-before-read', self.rel(path), None])
            self.pause_at = None
            self.on_pause()

    def point(self, kind: str, path, size: typing.Optional[int] = None) -> typing.Optional[int]:
        """Register a crash point *before* the call. Returns the cut length for a write that is to be
        torn, None otherwise; does not return if the child is to die here."""
        if self.on_point:
            self.on_point()
        if getattr(self, 'pause_mutation', None) == self.n + 1 and self.on_pause:
            self.pause_mutation = None
            self.log.append([self.n, 'paused-before-mutation', self.rel(path), None])
            self.on_pause()
        self.n += 1
        self.log.append([self.n, kind, self.rel(path), size])
        if getattr(self, 'error_mode', False):
            import errno  # pylint: disable=import-outside-toplevel

            name = os.fspath(path)
            if self.crash_at == self.n:
                self.log.append([self.n, 'io-error', self.rel(path), None])
                if kind == 'write':
                    self.failed_paths.add(name)
                    return max(0, min(self.cut or 0, (size or 1) - 1))
                raise OSError(errno.EIO, 'injected: I/O error', name)
            if kind == 'write' and name in self.failed_paths:
                raise OSError(errno.ENOSPC, 'injected: no space left on device', name)
            return None
        if self.crash_at == self.n:
            if kind == 'write' and self.cut is not None and size:
                return max(0, min(self.cut, size - 1))
            self.on_crash()
        return None


class CrashFileIO(io.FileIO):
    """Raw file whose every write is a crash point."""

    _disk: Disk = None
    _path = None

    def write(self, data) -> int:
        disk = self._disk
        if disk is None or not disk.enabled:
            return super().write(data)
        view = memoryview(data).cast('B')
        cut = disk.point('write', self._path, len(view))
        if cut is not None:
            done = 0
            while done < cut:
                done += super().write(view[done:cut])
            if disk.error_mode:
                import errno  # pylint: disable=import-outside-toplevel

                raise OSError(errno.ENOSPC, 'injected: no space left on device', self._path)
            disk.on_crash()
        return super().write(data)


def install(disk: Disk) -> None:
    """Patch the process (a forked child). Irreversible by design."""

    def sim_open(file, mode='r', buffering=-1, encoding=None, errors=None, newline=None, closefd=True, opener=None):
        writing = any(c in mode for c in 'wax+')
        if not writing and (disk.pause_at is not None or disk.on_point or disk.readerr_at is not None) and disk.tracked(file):
            disk.read_point(file)
        if not writing or not disk.tracked(file):
            return REAL['open'](file, mode, buffering, encoding, errors, newline, closefd, opener)
        binary = 'b' in mode
        rawmode = ''.join(c for c in mode if c in 'rwax+')
        exists = os.path.exists(file)
        if 'w' in mode or ('x' in mode) or ('a' in mode and not exists):
            disk.point('create' if not exists else 'truncate', file)
        raw = CrashFileIO(file, rawmode, closefd=closefd, opener=opener)
        raw._disk = disk  # pylint: disable=protected-access
        raw._path = os.fspath(file)  # pylint: disable=protected-access
        if buffering == 0:
            if not binary:
                raise ValueError("can't have unbuffered text I/O")
            return raw
        bufsize = io.DEFAULT_BUFFER_SIZE if buffering < 0 or buffering == 1 else buffering
        if '+' in mode:
            buffered = io.BufferedRandom(raw, bufsize)
        else:
            buffered = io.BufferedWriter(raw, bufsize)
        if binary:
            return buffered
        text = io.TextIOWrapper(buffered, encoding, errors, newline, buffering == 1)
        text.mode = mode
        return text

    def wrap1(name):
        real = REAL[name]

        def call(path, *args, **kwargs):
            if disk.tracked(path):
                disk.point(name, path)
            return real(path, *args, **kwargs)

        call.__name__ = name
        return call

    def wrap2(name):
        real = REAL[name]

        def call(src, dst, *args, **kwargs):
            if disk.tracked(dst) or disk.tracked(src):
                disk.point(name, dst)
            return real(src, dst, *args, **kwargs)

        call.__name__ = name
        return call

    def listdir(path='.'):
        if disk.tracked(path):
            disk.listing_point(path)
            return disk.permute(path, REAL['listdir'](path))
        return REAL['listdir'](path)

    class ScanDir:
        """What os.scandir returns (iterator + context manager) over a seeded permutation of the entries."""

        def __init__(self, entries):
            self._it = iter(entries)

        def __iter__(self):
            return self

        def __next__(self):
            return next(self._it)

        def close(self):
            self._it = iter(())

        def __enter__(self):
            return self

        def __exit__(self, *exc):
            self.close()

    def scandir(path='.'):
        if disk.tracked(path):
            disk.listing_point(path)
            with REAL['scandir'](path) as real:
                return ScanDir(disk.permute(path, list(real)))
        return REAL['scandir'](path)

    os.listdir = listdir
    os.scandir = scandir
    builtins.open = sim_open
    io.open = sim_open
    for name in ('mkdir', 'unlink', 'remove', 'rmdir', 'truncate'):
        setattr(os, name, wrap1(name))
    for name in ('rename', 'replace', 'symlink', 'link'):
        setattr(os, name, wrap2(name))
    # make shutil copy through python-level file objects (no sendfile/copy_file_range fast path)
    shutil._USE_CP_SENDFILE = False  # pylint: disable=protected-access
    if hasattr(shutil, '_USE_CP_COPY_FILE_RANGE'):
        shutil._USE_CP_COPY_FILE_RANGE = False  # pylint: disable=protected-access
    # shutil.rmtree uses fd-based os.unlink(name, dir_fd=...) - make it take the path-based branch
    shutil._use_fd_functions = False  # pylint: disable=protected-access
    if hasattr(shutil.rmtree, 'avoids_symlink_attacks'):
        shutil.rmtree.avoids_symlink_attacks = False
