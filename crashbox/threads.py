"""Cooperative interleaving of a few real threads inside one crashbox child.

The scheduling points are the child's tracked file-system calls (``Disk.on_point``): exactly one
thread holds the baton at any time, and at every point an explicit schedule (a list of integers
supplied by the driver, default 0 = keep running the current thread) decides who continues. Native
code between two points (pyarrow, sqlite, duckdb) runs while its thread holds the baton, so there is
no real parallelism and one schedule is one execution.
"""
import sys
import threading
import typing


class Interleaver:
    """Runs callables as baton-passing threads."""

    def __init__(self, disk, schedule: typing.Sequence[int], trace_files: typing.Sequence[str] = ()):
        self.trace_files = tuple(trace_files)  # additionally: a scheduling point at every line of these source files
        self.disk = disk
        self.schedule = list(schedule)
        self.sems: list = []
        self.done: list = []
        self.current = 0
        self.results: list = []
        self.decisions = 0
        self.switches = 0

    def _pick(self) -> int:
        alive = [i for i in range(len(self.sems)) if not self.done[i]]
        if not alive:
            return -1
        order = ([self.current] if self.current in alive else []) + [i for i in alive if i != self.current]
        choice = self.schedule.pop(0) if self.schedule else 0
        self.decisions += 1
        return order[choice % len(order)]

    def yield_(self) -> None:
        me = self.current
        nxt = self._pick()
        if nxt in (me, -1):
            return
        self.switches += 1
        self.current = nxt
        self.sems[nxt].release()
        self.sems[me].acquire()

    def run(self, fns: typing.Sequence[typing.Callable[[], typing.Any]]) -> list:
        n = len(fns)
        self.sems = [threading.Semaphore(0) for _ in range(n)]
        self.done = [False] * n
        self.results = [None] * n
        finished = threading.Semaphore(0)

        def local(frame, event, arg):  # pylint: disable=unused-argument
            if event == 'line':
                self.yield_()
            return local

        def tracer(frame, event, arg):  # pylint: disable=unused-argument
            # (never inside module-level code: a parked importer would hold the import lock)
            if event == 'call' and frame.f_code.co_name != '<module>' and frame.f_code.co_filename.endswith(self.trace_files):
                return local
            return None

        def body(i: int):
            self.sems[i].acquire()
            if self.trace_files:
                sys.settrace(tracer)
            try:
                self.results[i] = ('ok', fns[i]())
            except Exception as err:  # pylint: disable=broad-except
                self.results[i] = ('exc', f'{type(err).__name__}: {err}'[:300])
            finally:
                sys.settrace(None)
                self.done[i] = True
                nxt = self._pick()
                if nxt == -1:
                    finished.release()
                else:
                    self.current = nxt
                    self.sems[nxt].release()

        threads = [threading.Thread(target=body, args=(i,), daemon=True) for i in range(n)]
        for thread in threads:
            thread.start()
        self.disk.on_point = self.yield_
        try:
            self.current = 0
            self.sems[0].release()
            finished.acquire()
        finally:
            self.disk.on_point = None
        for thread in threads:
            thread.join(5)
        return self.results
