"""Engine B driver: sequential process incarnations over a real durable directory.

The driver (parent) owns the PRNG, the reference model and the history. It runs *one child at a
time* and waits for it, so the only nondeterminism - which mutation a process dies at - is a
driver decision. A child is a fork of the pre-imported zygote image (the check's main process):
fresh copies of every module global / lru cache / class attribute, nothing shared but the
directory. Children execute operations from an importable op table against real forml code.
"""
import datetime
import os
import pickle
import random
import select
import shutil
import signal
import struct
import sys
import tempfile
import traceback
import types
import typing
import uuid

from . import disk as diskmod

SCRATCH_PARENT = os.environ.get('VERIF_SCRATCH') or tempfile.gettempdir()


def _send(fd: int, obj) -> None:
    data = pickle.dumps(obj)
    data = struct.pack('<I', len(data)) + data
    while data:
        n = os.write(fd, data)
        data = data[n:]


def _recv(fd: int):
    head = b''
    while len(head) < 4:
        chunk = os.read(fd, 4 - len(head))
        if not chunk:
            return None
        head += chunk
    (size,) = struct.unpack('<I', head)
    body = b''
    while len(body) < size:
        chunk = os.read(fd, size - len(body))
        if not chunk:
            return None
        body += chunk
    return pickle.loads(body)


class Result(typing.NamedTuple):
    status: str  # ok | exc | crashed | paused | died
    value: typing.Any
    exc: typing.Optional[str]
    oplog: list
    meta: dict = {}  # e.g. {'listings': number of tracked directory listings the operation made}

    @property
    def ok(self) -> bool:
        return self.status == 'ok'


class VirtualDatetime(datetime.datetime):
    """datetime whose utcnow()/now() is a deterministic counter (children never read a wall clock
    for anything that ends up in durable state)."""

    _tick = 0

    @classmethod
    def utcnow(cls):
        VirtualDatetime._tick += 1
        return datetime.datetime(2026, 1, 1) + datetime.timedelta(seconds=VirtualDatetime._tick)

    @classmethod
    def now(cls, tz=None):
        return cls.utcnow()


def seed_identity(seed: int) -> None:
    """Make uuid4 / random / datetime.utcnow functions of the seed (call in a child)."""
    rng = random.Random(seed)
    random.seed(seed)
    uuid.uuid4 = lambda: uuid.UUID(int=rng.getrandbits(128), version=4)
    # temporary names too (they end up in directory listings, whose simulated order is keyed by path)
    names = tempfile._RandomNameSequence()  # pylint: disable=protected-access
    names._rng = random.Random(seed ^ 0x7E)  # pylint: disable=protected-access
    names._rng_pid = os.getpid()  # pylint: disable=protected-access
    tempfile._name_sequence = names  # pylint: disable=protected-access
    try:
        from forml.io.asset._directory.level import minor  # pylint: disable=import-outside-toplevel

        VirtualDatetime._tick = seed % 1000  # pylint: disable=protected-access
        # module shim: only what minor.py uses
        minor.datetime = types.SimpleNamespace(datetime=VirtualDatetime, timedelta=datetime.timedelta)
    except ImportError:
        pass


_PARENT_FDS: set[int] = set()  # driver-side pipe ends of all live children (a new child must not inherit them)


class Child:
    """One simulated process incarnation."""

    def __init__(self, root: str, optable: str, seed: int, env: typing.Optional[dict] = None):
        self.root = root
        down_r, down_w = os.pipe()
        up_r, up_w = os.pipe()
        sys.stdout.flush()
        sys.stderr.flush()
        pid = os.fork()
        if pid == 0:
            code = 1
            try:
                os.close(down_w)
                os.close(up_r)
                for fd in _PARENT_FDS:  # pipe ends of sibling incarnations: keeping them open would hide their EOF
                    try:
                        os.close(fd)
                    except OSError:
                        pass
                self._serve(down_r, up_w, optable, seed, env or {})
                code = 0
            except BaseException:  # pylint: disable=broad-except
                traceback.print_exc()
            finally:
                os._exit(code)
        os.close(down_r)
        os.close(up_w)
        self.pid = pid
        self._w = down_w
        self._r = up_r
        _PARENT_FDS.update((down_w, up_r))
        self.alive = True

    def _serve(self, rfd: int, wfd: int, optable: str, seed: int, env: dict) -> None:
        os.environ.update(env)
        if os.environ.get('VERIF_CHILD_DUMP'):  # debugging aid: dump all thread stacks if an operation hangs
            import faulthandler  # pylint: disable=import-outside-toplevel

            faulthandler.dump_traceback_later(int(os.environ['VERIF_CHILD_DUMP']), exit=False)
        seed_identity(seed)

        def die():
            _send(wfd, ('crashed', None, None, disk.log))
            os._exit(137)

        def pause():
            _send(wfd, ('paused', None, None, list(disk.log)))
            if _recv(rfd) is None:  # the driver went away
                os._exit(0)

        disk = diskmod.Disk(self.root, die)
        disk.on_pause = pause
        disk.order_seed = seed
        diskmod.install(disk)
        module = __import__(optable, fromlist=['OPS'])
        ops = module.OPS
        ctx: dict = {'root': self.root, 'seed': seed, 'disk': disk}
        while True:
            msg = _recv(rfd)
            if msg is None:
                return
            name, args, crash, pause = msg
            disk.begin(crash, pause)
            try:
                value = ops[name](ctx, **args)
                reply = ('ok', value, None, disk.end(), {'listings': disk.listings, 'permuted': disk.permuted})
            except Exception as err:  # pylint: disable=broad-except
                reply = ('exc', f'{type(err).__name__}: {err}'[:500], type(err).__name__, disk.end(),
                         {'listings': disk.listings, 'permuted': disk.permuted})
            _send(wfd, reply)

    def call(self, name: str, args: typing.Optional[dict] = None, crash: typing.Optional[dict] = None,
             pause: typing.Optional[dict] = None) -> Result:
        """Execute one operation. With `pause` ({'at': n, 'match': suffixes}) the child parks before its n-th
        tracked read and this returns status 'paused'; resume() continues it and returns the final result."""
        assert self.alive
        _send(self._w, (name, args or {}, crash, pause))
        return self._reply()

    def resume(self) -> Result:
        assert self.alive
        _send(self._w, ('resume',))
        return self._reply()

    def _reply(self) -> Result:
        # real-time watchdog: a child that does not answer is a harness problem, never a verdict
        ready, _, _ = select.select([self._r], [], [], float(os.environ.get('VERIF_CHILD_TIMEOUT', 180)))
        if not ready:
            try:
                os.kill(self.pid, signal.SIGKILL)
            except OSError:
                pass
            self._reap()
            return Result('died', None, 'child did not answer within the real-time limit (killed)', [])
        reply = _recv(self._r)
        if reply is None:
            self._reap()
            return Result('died', None, 'child exited without a reply', [])
        status, value, exc, oplog, *rest = reply
        if status == 'crashed':
            self._reap()
        return Result(status, value, exc, oplog, rest[0] if rest else {})

    def _reap(self) -> None:
        if self.alive:
            self.alive = False
            for fd in (self._w, self._r):
                _PARENT_FDS.discard(fd)
                try:
                    os.close(fd)
                except OSError:
                    pass
            os.waitpid(self.pid, 0)

    def close(self) -> None:
        self._reap()

    def __enter__(self):
        return self

    def __exit__(self, *exc):
        self.close()


class Box:
    """A per-run durable directory plus helpers for snapshots and incarnations."""

    def __init__(self, optable: str, seed: int, prefix: str = 'crashbox-'):
        # the directory name is a function of the seed (path strings are dictionary keys all over the place); only when
        # that name is taken - the same seed running elsewhere at this moment - a random one is used
        self.base = os.path.join(SCRATCH_PARENT or tempfile.gettempdir(), f'{prefix}{seed}')
        try:
            os.mkdir(self.base, 0o700)
        except FileExistsError:
            self.base = tempfile.mkdtemp(prefix=prefix, dir=SCRATCH_PARENT)
        self.root = os.path.join(self.base, 'root')
        os.mkdir(self.root)
        self.optable = optable
        self.seed = seed
        self._children = 0
        self._snaps = 0

    def child(self, env: typing.Optional[dict] = None) -> Child:
        self._children += 1
        return Child(self.root, self.optable, self.seed * 1000 + self._children, env)

    def oneshot(self, name: str, args: typing.Optional[dict] = None, crash: typing.Optional[dict] = None,
                env: typing.Optional[dict] = None) -> Result:
        with self.child(env) as child:
            return child.call(name, args, crash)

    def snapshot(self) -> str:
        self._snaps += 1
        path = os.path.join(self.base, f'snap{self._snaps}')
        shutil.copytree(self.root, path, symlinks=True)
        return path

    def restore(self, snap: str) -> None:
        shutil.rmtree(self.root)
        shutil.copytree(snap, self.root, symlinks=True)

    def drop(self, snap: str) -> None:
        shutil.rmtree(snap, ignore_errors=True)

    def destroy(self) -> None:
        shutil.rmtree(self.base, ignore_errors=True)

    def __enter__(self):
        return self

    def __exit__(self, *exc):
        self.destroy()
