"""Engine A kernel: one baton, many real threads, one PRNG.

Every forml thread *and* every forml "process" is a real Python thread parked on its own semaphore.
Exactly one task runs at any time and *who runs next is always a kernel decision* taken from one
``random.Random(seed)`` stream. Scheduling points:

* every simulated blocking primitive (queues, events, locks, thread start/join/is_alive, sleep,
  future hand-over, event-loop idle) - for all tasks;
* for tasks of kind ``thread`` (they share memory): pre-emption where CPython 3.12 can really switch
  threads - function entry, backward jumps and right after a call returned - obtained from
  ``sys.settrace`` opcode events in a whitelist of forml source files;
* tasks of kind ``process`` yield only at IPC (nothing else they do is visible to another process).

Time is discrete-event: when nothing is runnable the clock jumps to the next timer. Logging never
draws from the PRNG and never reads a real clock.
"""
import collections
import dis
import hashlib
import heapq
import random
import sys
import threading
import typing

RealThread = threading.Thread  # captured before any seam is installed
RealSemaphore = threading.Semaphore

RUNNABLE, BLOCKED, DONE, NEW = 'runnable', 'blocked', 'done', 'new'
_KERNEL: typing.Optional['Kernel'] = None


def current() -> typing.Optional['Kernel']:
    return _KERNEL


IMPORT_SENSITIVE = ('forml/setup/_importer.py',)


def _under_import(frame) -> bool:
    """Is the import machinery below this frame (i.e. does the interpreter hold an import lock for this thread)?"""
    frame = frame.f_back
    while frame is not None:
        if frame.f_code.co_filename.startswith('<frozen importlib'):
            return True
        frame = frame.f_back
    return False


class Deadlock(BaseException):
    """No task runnable and no timer pending."""


class StepBudget(BaseException):
    """The run exceeded its step budget."""


class Task:
    """A schedulable unit backed by a real thread."""

    __slots__ = ('tid', 'name', 'kind', 'state', 'sem', 'key', 'deadline', 'woken', 'thread', 'prio', 'stall',
                 'nopreempt', 'lastop')

    def __init__(self, tid: int, name: str, kind: str):
        self.tid = tid
        self.name = name
        self.kind = kind  # thread | process | main
        self.state = NEW
        self.sem = RealSemaphore(0)
        self.key = None
        self.deadline = None
        self.woken = False
        self.thread = None
        self.prio = 0.0
        self.stall = 0.0
        self.nopreempt = 0
        self.lastop = {}

    def __repr__(self):
        return f'<{self.name}:{self.state}>'


class Kernel:
    """The scheduler / clock / fault oracle of one simulated run."""

    def __init__(self, seed: int, cfg: typing.Optional[dict] = None):
        cfg = dict(cfg or {})
        self.seed = seed
        self.rng = random.Random(seed)
        self.cfg = cfg
        self.policy: str = cfg.get('policy', 'random')
        self.preempt_p: float = cfg.get('preempt_p', 0.2)
        self.faults: dict[str, float] = dict(cfg.get('faults', {}))
        self.max_steps: int = cfg.get('max_steps', 200000)
        self.now: float = 0.0
        self.step: int = 0
        self.tasks: list[Task] = []
        self.current: typing.Optional[Task] = None
        self.log: list = []
        self.keep_log: bool = cfg.get('keep_log', True)
        self.hash = hashlib.sha256()
        self.stats: collections.Counter = collections.Counter()
        self.probes: collections.Counter = collections.Counter()
        self.switches = 0
        self.forced: typing.Optional[list] = cfg.get('schedule')  # replay: explicit decisions
        self.decisions: list = []
        self.trace_files: tuple = tuple(cfg.get('trace_files', ()))  # opcode-level pre-emption
        self.trace_entry_files: tuple = tuple(cfg.get('trace_entry_files', ()))  # function entry only
        self.pct_changes: set = set()
        self.failed: typing.Optional[BaseException] = None
        self.stalled: dict[int, float] = {}
        if self.policy == 'pct':
            depth = cfg.get('pct_depth', 3)
            horizon = cfg.get('pct_horizon', 2000)
            self.pct_changes = {self.rng.randrange(1, horizon) for _ in range(depth)}

    # -- task management ---------------------------------------------------------------------
    def _new_task(self, name: str, kind: str) -> Task:
        task = Task(len(self.tasks), f'{name}#{len(self.tasks)}', kind)
        task.prio = self.rng.random()
        self.tasks.append(task)
        return task

    def spawn(self, fn: typing.Callable[[], None], name: str, kind: str = 'thread') -> Task:
        """Create a task running fn(); becomes runnable immediately, runs when scheduled."""
        task = self._new_task(name, kind)
        kernel = self

        def bootstrap():
            task.sem.acquire()
            try:
                if task.kind in ('thread', 'main') and (kernel.trace_files or kernel.trace_entry_files):
                    sys.settrace(kernel._make_tracer(task))
                fn()
            except BaseException as err:  # pylint: disable=broad-except
                kernel.stats['task_exceptions'] += 1
                kernel.note('task-exception', f'{task.name}: {type(err).__name__}: {err}')
                if task.kind == 'main':
                    kernel.failed = err
            finally:
                sys.settrace(None)
                kernel._finish(task)

        task.thread = RealThread(target=bootstrap, name=task.name, daemon=True)
        task.state = RUNNABLE
        task.thread.start()
        return task

    def _finish(self, task: Task) -> None:
        task.state = DONE
        self.wake(('join', task.tid))
        self.note('exit', task.name)
        if task.kind == 'main':
            self._main_done.release()
            return
        nxt = self._pick(None)
        if nxt is None:
            # nothing left to run: hand control back to the main task's owner
            self.failed = self.failed or Deadlock(f'all tasks finished or blocked at t={self.now}')
            self._main_done.release()
            return
        self.current = nxt
        nxt.sem.release()

    def run(self, main: typing.Callable[[], None]) -> None:
        """Run main() as task 0 until it returns. Other tasks are abandoned (the run's process exits)."""
        global _KERNEL  # pylint: disable=global-statement
        _KERNEL = self
        self._main_done = RealSemaphore(0)
        task = self.spawn(main, 'main', 'main')
        self.current = task
        task.sem.release()
        self._main_done.acquire()
        _KERNEL = None
        if self.failed:
            raise self.failed

    # -- logging -----------------------------------------------------------------------------
    def note(self, label: str, detail: str = '') -> None:
        entry = (self.step, self.current.name if self.current else '-', label, detail)
        self.hash.update(repr(entry).encode())
        if self.keep_log:
            self.log.append(entry)

    def probe(self, name: str) -> None:
        self.probes[name] += 1

    def digest(self) -> str:
        return self.hash.hexdigest()[:16]

    # -- choice ------------------------------------------------------------------------------
    def choose(self, n: int, weight_first: typing.Optional[float] = None) -> int:
        """THE source of nondeterminism: an integer in [0, n). Recorded in `decisions`; in replay mode
        taken from the forced list, where a missing / out-of-range entry means 0 - and 0 always is the
        "nothing unusual" choice (stay on the current task, no pre-emption, no fault)."""
        if self.forced is not None:
            value = self.forced.pop(0) if self.forced else 0
            if not 0 <= value < n:
                value = 0
        elif weight_first is not None:
            value = 0 if self.rng.random() < weight_first else 1 + self.rng.randrange(n - 1)
        else:
            value = self.rng.randrange(n)
        self.decisions.append(value)
        return value

    def fault(self, kind: str) -> bool:
        """One decision per consulted fault site; counted only when it fires."""
        p = self.faults.get(kind, 0.0)
        if p <= 0.0:
            return False
        if self.choose(2, 1.0 - p):
            self.stats[f'fault:{kind}'] += 1
            self.note('fault', kind)
            return True
        return False

    def _runnable(self) -> list[Task]:
        return [t for t in self.tasks if t.state == RUNNABLE]

    def _advance(self) -> bool:
        """Nothing runnable: jump the clock to the earliest deadline. False if there is none."""
        timed = [t for t in self.tasks if t.state == BLOCKED and t.deadline is not None]
        if not timed:
            return False
        when = min(t.deadline for t in timed)
        if when > self.now:
            self.now = when
        for t in timed:
            if t.deadline <= self.now:
                t.state = RUNNABLE
                t.woken = False
                t.key = None
                t.deadline = None
        return True

    def _pick(self, me: typing.Optional[Task]) -> typing.Optional[Task]:
        while True:
            runnable = self._runnable()
            if runnable:
                break
            if not self._advance():
                return None
        if len(runnable) == 1:
            return runnable[0]
        if me in runnable:  # index 0 = stay on the current task
            runnable.remove(me)
            runnable.insert(0, me)
        if self.forced is None and self.policy == 'pct':
            if self.step in self.pct_changes and me is not None:
                me.prio = -self.rng.random()
            best = max(runnable, key=lambda t: t.prio)
            self.decisions.append(runnable.index(best))
            return best
        return runnable[self.choose(len(runnable))]

    def _switch(self, me: Task, label: str) -> None:
        self.step += 1
        if self.step > self.max_steps:
            self._fatal(StepBudget(f'step budget {self.max_steps} exceeded at t={self.now}'), me)
        nxt = self._pick(me)
        if nxt is None:
            self._fatal(Deadlock(f'no runnable task and no timer at t={self.now} ({label}); blocked: '
                                 f'{[(t.name, t.key) for t in self.tasks if t.state == BLOCKED]}'), me)
        self.note(label, nxt.name)
        if nxt is me:
            return
        self.switches += 1
        self.current = nxt
        nxt.sem.release()
        me.sem.acquire()

    def _fatal(self, err: BaseException, me: Task) -> None:
        """End the run from whatever task noticed; never unwinds through forml code."""
        self.failed = self.failed or err
        self._main_done.release()
        me.sem.acquire()  # parked forever (the run's process exits)

    # -- primitives used by the simulated objects -------------------------------------------------
    def me(self) -> Task:
        return self.current

    def yield_(self, label: str) -> None:
        me = self.current
        if self.fault('stall'):
            duration = (0.5, 2.0, 7.0)[self.choose(3)]
            self.stalled[me.tid] = self.stalled.get(me.tid, 0.0) + duration
            self.sleep(duration, 'stalled')
            return
        self._switch(me, label)

    def block(self, key, timeout: typing.Optional[float], label: str) -> bool:
        """Park the current task on key (optionally with a virtual timeout). True if woken by wake()."""
        me = self.current
        me.state = BLOCKED
        me.key = key
        me.deadline = None if timeout is None else self.now + max(0.0, timeout)
        me.woken = False
        self._switch(me, label)
        return me.woken

    def wake(self, key) -> int:
        count = 0
        for t in self.tasks:
            if t.state == BLOCKED and t.key == key:
                t.state = RUNNABLE
                t.key = None
                t.deadline = None
                t.woken = True
                count += 1
        return count

    def sleep(self, seconds: float, label: str = 'sleep') -> None:
        self.block(('sleep', self.current.tid, self.step), max(0.0, seconds), label)

    # -- pre-emption of shared-memory tasks --------------------------------------------------------
    _CALLS = frozenset(n for n in dis.opmap if n.startswith('CALL'))
    _opcache: dict = {}

    @classmethod
    def _ops(cls, code) -> dict:
        ops = cls._opcache.get(code)
        if ops is None:
            ops = {ins.offset: ins.opname for ins in dis.get_instructions(code)}
            cls._opcache[code] = ops
        return ops

    def _make_tracer(self, task: Task):
        kernel = self
        files = self.trace_files
        calls = self._CALLS

        def local(frame, event, arg):  # pylint: disable=unused-argument
            if event == 'opcode':
                ops = kernel._ops(frame.f_code)
                op = ops.get(frame.f_lasti, '')
                fid = id(frame)
                prev = task.lastop.get(fid)
                task.lastop[fid] = op
                if (prev in calls or op == 'JUMP_BACKWARD') and not task.nopreempt:
                    kernel._preempt(task, frame)
            elif event == 'return':
                task.lastop.pop(id(frame), None)
            return local

        entry_files = self.trace_entry_files

        def tracer(frame, event, arg):  # pylint: disable=unused-argument
            if event != 'call':
                return None
            filename = frame.f_code.co_filename
            if filename.endswith(IMPORT_SENSITIVE) and _under_import(frame):
                return None  # called BY the import system (finder / loader hooks): an import lock is held - no parking here
            if not filename.endswith(files):
                if entry_files and filename.endswith(entry_files) and not task.nopreempt:
                    kernel._preempt(task, frame)
                return None
            frame.f_trace_opcodes = True
            frame.f_trace_lines = False
            if not task.nopreempt:
                kernel._preempt(task, frame)  # function entry (RESUME checks the eval breaker)
            return local

        return tracer

    def _preempt(self, task: Task, frame) -> None:
        if self.current is not task or _KERNEL is not self:
            return
        self.stats['preempt_points'] += 1
        if not any(t.state == RUNNABLE and t is not task for t in self.tasks):
            return
        if not self.choose(2, 1.0 - self.preempt_p):
            return
        task.nopreempt += 1
        try:
            self._switch(task, f'preempt {frame.f_code.co_name}:{frame.f_lineno}')
        finally:
            task.nopreempt -= 1


class atomic:  # pylint: disable=invalid-name
    """Context manager: no pre-emption of the current task inside (used around simulator internals)."""

    def __enter__(self):
        k = _KERNEL
        self.task = k.current if k else None
        if self.task:
            self.task.nopreempt += 1

    def __exit__(self, *exc):
        if self.task:
            self.task.nopreempt -= 1
