"""One simulated run = one fresh fork of the zygote image (the check's worker process).

A run's step count depends on what ran earlier in the same interpreter (lru caches, first-call-only
branches, lazily imported modules change the number of trace events), so runs never share an
interpreter: the worker forks, the child runs the simulation and sends its (picklable) result back
over a pipe, then ``os._exit``s - which also disposes of every parked simulator thread.
"""
import os
import pickle
import select
import signal
import struct
import sys
import time
import traceback
import typing


class RunFailed(Exception):
    """The run's process did not produce a result (harness problem, never a verdict)."""


def seed_identity(seed: int) -> None:
    """uuid4 (node uids, group ids, state ids) and the global `random` become functions of the run's seed."""
    import random  # pylint: disable=import-outside-toplevel
    import uuid  # pylint: disable=import-outside-toplevel

    rng = random.Random(seed ^ 0x1D)
    random.seed(seed)
    uuid.uuid4 = lambda: uuid.UUID(int=rng.getrandbits(128), version=4)
    import tempfile  # pylint: disable=import-outside-toplevel

    names = tempfile._RandomNameSequence()  # pylint: disable=protected-access
    names._rng = random.Random(seed ^ 0x7E)  # pylint: disable=protected-access
    names._rng_pid = os.getpid()  # pylint: disable=protected-access
    tempfile._name_sequence = names  # pylint: disable=protected-access


def fork_run(fn: typing.Callable[..., typing.Any], *args, real_timeout: float = 120.0,
             seed: typing.Optional[int] = None):
    rfd, wfd = os.pipe()
    sys.stdout.flush()
    sys.stderr.flush()
    pid = os.fork()
    if pid == 0:
        code = 3
        try:
            os.close(rfd)
            if seed is not None:
                seed_identity(seed)
            try:
                payload = ('ok', fn(*args))
            except BaseException as err:  # pylint: disable=broad-except
                payload = ('err', f'{type(err).__name__}: {err}\n{traceback.format_exc()}')
            data = pickle.dumps(payload)
            data = struct.pack('<I', len(data)) + data
            while data:
                n = os.write(wfd, data)
                data = data[n:]
            code = 0
        finally:
            os._exit(code)
    os.close(wfd)
    deadline = time.monotonic() + real_timeout
    buf = b''
    try:
        while True:
            remaining = deadline - time.monotonic()
            if remaining <= 0:
                os.kill(pid, signal.SIGKILL)
                raise RunFailed(f'run exceeded {real_timeout}s of real time (lost baton?)')
            ready, _, _ = select.select([rfd], [], [], min(remaining, 5.0))
            if not ready:
                continue
            chunk = os.read(rfd, 1 << 16)
            if not chunk:
                break
            buf += chunk
    finally:
        os.close(rfd)
        try:
            os.waitpid(pid, 0)
        except ChildProcessError:
            pass
    if len(buf) < 4:
        raise RunFailed('run process died without a result')
    (size,) = struct.unpack('<I', buf[:4])
    status, value = pickle.loads(buf[4:4 + size])
    if status != 'ok':
        raise RunFailed(value)
    return value
