"""One simulated run = one fresh fork of the zygote image (the check's worker process).

A run's step count depends on what ran earlier in the same interpreter (lru caches, first-call-only
branches, lazily imported modules change the number of trace events), so runs never share an
interpreter: the worker forks, the child runs the simulation and sends its (picklable) result back
over a pipe, then ``os._exit``s - which also disposes of every parked simulator thread.
"""
import os
import pickle
import select
import signal
import struct
import sys
import time
import traceback
import typing


class RunFailed(Exception):
    """The run's process did not produce a result (harness problem, never a verdict)."""


def seed_identity(seed: int) -> None:
    """uuid4 (node uids, group ids, state ids) and the global `random` become functions of the run's seed."""
    import random  # pylint: disable=import-outside-toplevel
    import uuid  # pylint: disable=import-outside-toplevel

    rng = random.Random(seed ^ 0x1D)
    random.seed(seed)
    uuid.uuid4 = lambda: uuid.UUID(int=rng.getrandbits(128), version=4)
    import tempfile  # pylint: disable=import-outside-toplevel

    names = tempfile._RandomNameSequence()  # pylint: disable=protected-access
    names._rng = random.Random(seed ^ 0x7E)  # pylint: disable=protected-access
    names._rng_pid = os.getpid()  # pylint: disable=protected-access
    tempfile._name_sequence = names  # pylint: disable=protected-access


def _read_exact(fd: int, size: int) -> bytes:
    buf = b''
    while len(buf) < size:
        chunk = os.read(fd, size - len(buf))
        if not chunk:
            return b''
        buf += chunk
    return buf


def _run_and_report(fn, args, seed, wfd: int) -> None:
    """Body of the process that IS the run. Never returns."""
    code = 3
    try:
        if seed is not None:
            seed_identity(seed)
        try:
            payload = ('ok', fn(*args))
        except BaseException as err:  # pylint: disable=broad-except
            payload = ('err', f'{type(err).__name__}: {err}\n{traceback.format_exc()}')
        data = pickle.dumps(payload)
        data = struct.pack('<I', len(data)) + data
        while data:
            n = os.write(wfd, data)
            data = data[n:]
        code = 0
    finally:
        os._exit(code)


# A sweep worker runs many seeds one after the other, and what it did before shapes its heap: a run forked from it
# would see other object addresses (hence other iteration orders of identity-hashed sets, other id() reuse) depending
# on which seeds the pool happened to hand that worker earlier. So a worker forks ONE zygote before its first run;
# the zygote does nothing but fork: every run of that worker starts from the same frozen image. The zygote never
# touches a request (it reads a 4 byte header, forks, and the run reads its own arguments from the pipe).
USE_ZYGOTE = False  # switched on in pool workers (vlib.base._worker_init); the main process forks directly
_ZYGOTE: typing.Optional[tuple] = None


def _zygote_start() -> tuple:
    cmd_r, cmd_w = os.pipe()
    res_r, res_w = os.pipe()
    ctl_r, ctl_w = os.pipe()
    sys.stdout.flush()
    sys.stderr.flush()
    pid = os.fork()
    if pid == 0:
        try:
            for fd in (cmd_w, res_r, ctl_r):
                os.close(fd)
            while True:
                head = _read_exact(cmd_r, 4)
                if not head:
                    break  # the worker is gone
                child = os.fork()
                if child == 0:
                    os.close(ctl_w)
                    (size,) = struct.unpack('<I', head)
                    fn, args, seed = pickle.loads(_read_exact(cmd_r, size))
                    os.close(cmd_r)
                    _run_and_report(fn, args, seed, res_w)
                os.write(ctl_w, struct.pack('<i', child))
                os.waitpid(child, 0)
                os.write(ctl_w, struct.pack('<i', 0))  # that run is over (with or without a result)
        finally:
            os._exit(0)
    for fd in (cmd_r, res_w, ctl_w):
        os.close(fd)
    return pid, cmd_w, res_r, ctl_r


def start_zygote() -> None:
    """Fork this process' zygote now (a pool worker does so before it has seen its first job: what a job's arguments
    leave on the worker's heap must not become part of the image every run of that worker starts from)."""
    global _ZYGOTE  # pylint: disable=global-statement
    if _ZYGOTE is None or _ZYGOTE[4] != os.getpid():
        _ZYGOTE = (*_zygote_start(), os.getpid())


def _fork_run_zygote(fn, args, real_timeout: float, seed):
    global _ZYGOTE  # pylint: disable=global-statement
    start_zygote()
    _, cmd_w, res_r, ctl_r, _ = _ZYGOTE
    data = pickle.dumps((fn, args, seed))
    data = struct.pack('<I', len(data)) + data
    while data:
        n = os.write(cmd_w, data)
        data = data[n:]
    head = _read_exact(ctl_r, 4)
    if not head:
        _ZYGOTE = None
        raise RunFailed('the zygote of this worker died')
    (pid,) = struct.unpack('<i', head)
    deadline = time.monotonic() + real_timeout
    buf = b''
    need = None
    over = False
    killed = False
    while True:
        if need is not None and len(buf) >= need:
            break
        if over:
            # the run is gone: whatever it wrote is in the pipe already
            ready, _, _ = select.select([res_r], [], [], 0)
            if not ready:
                break
        remaining = deadline - time.monotonic()
        if remaining <= 0 and not killed:
            try:
                os.kill(pid, signal.SIGKILL)
            except ProcessLookupError:
                pass
            killed = True
        ready, _, _ = select.select([res_r, ctl_r] if not over else [res_r], [], [], 5.0 if not killed else 30.0)
        if ctl_r in ready:
            if not _read_exact(ctl_r, 4):
                _ZYGOTE = None
                raise RunFailed('the zygote of this worker died')
            over = True
        if res_r in ready:
            chunk = os.read(res_r, 1 << 16)
            buf += chunk
            if need is None and len(buf) >= 4:
                need = 4 + struct.unpack('<I', buf[:4])[0]
        if killed and not ready and not over:
            _ZYGOTE = None
            raise RunFailed(f'run exceeded {real_timeout}s of real time and could not be reaped')
    if not over:  # the result is complete; collect the end-of-run marker so that the next request starts clean
        if not _read_exact(ctl_r, 4):
            _ZYGOTE = None
    if killed:
        raise RunFailed(f'run exceeded {real_timeout}s of real time (lost baton?)')
    if need is None or len(buf) < need:
        raise RunFailed('run process died without a result')
    status, value = pickle.loads(buf[4:need])
    if status != 'ok':
        raise RunFailed(value)
    return value


def fork_run(fn: typing.Callable[..., typing.Any], *args, real_timeout: float = 120.0,
             seed: typing.Optional[int] = None):
    if USE_ZYGOTE and os.environ.get('VERIF_ZYGOTE', '1') != '0':
        return _fork_run_zygote(fn, args, real_timeout, seed)
    rfd, wfd = os.pipe()
    sys.stdout.flush()
    sys.stderr.flush()
    pid = os.fork()
    if pid == 0:
        code = 3
        try:
            os.close(rfd)
            if seed is not None:
                seed_identity(seed)
            try:
                payload = ('ok', fn(*args))
            except BaseException as err:  # pylint: disable=broad-except
                payload = ('err', f'{type(err).__name__}: {err}\n{traceback.format_exc()}')
            data = pickle.dumps(payload)
            data = struct.pack('<I', len(data)) + data
            while data:
                n = os.write(wfd, data)
                data = data[n:]
            code = 0
        finally:
            os._exit(code)
    os.close(wfd)
    deadline = time.monotonic() + real_timeout
    buf = b''
    try:
        while True:
            remaining = deadline - time.monotonic()
            if remaining <= 0:
                os.kill(pid, signal.SIGKILL)
                raise RunFailed(f'run exceeded {real_timeout}s of real time (lost baton?)')
            ready, _, _ = select.select([rfd], [], [], min(remaining, 5.0))
            if not ready:
                continue
            chunk = os.read(rfd, 1 << 16)
            if not chunk:
                break
            buf += chunk
    finally:
        os.close(rfd)
        try:
            os.waitpid(pid, 0)
        except ChildProcessError:
            pass
    if len(buf) < 4:
        raise RunFailed('run process died without a result')
    (size,) = struct.unpack('<I', buf[:4])
    status, value = pickle.loads(buf[4:4 + size])
    if status != 'ok':
        raise RunFailed(value)
    return value
