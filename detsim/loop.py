"""Virtual-time asyncio event loop driven by the kernel.

``BaseEventLoop._run_once`` is reused unchanged: it computes the timeout to the next timer and calls
``self._selector.select(timeout)``. Our selector parks the loop's task in the kernel for that long
(virtual seconds) or until ``call_soon_threadsafe`` from another task wakes it. ``time()`` is the
kernel clock, so ``asyncio.sleep`` / ``wait_for`` deadlines cost nothing in real time.
"""
import asyncio
import itertools

from . import kernel as kmod
from . import sim


class _Selector:
    def __init__(self, loop: 'SimEventLoop'):
        self._loop = loop

    def select(self, timeout=None):
        loop = self._loop
        k = kmod.current()
        if k is None:
            return []
        if loop._sim_woken:  # pylint: disable=protected-access
            loop._sim_woken = False  # pylint: disable=protected-access
            k.yield_('loop.poll')
            return []
        if timeout is not None and timeout <= 0:
            k.yield_('loop.poll')
            return []
        k.block(('loop', id(loop)), timeout, 'loop.idle')
        loop._sim_woken = False  # pylint: disable=protected-access
        return []

    def close(self):
        pass

    def get_map(self):
        return {}


class SimEventLoop(asyncio.BaseEventLoop):
    """Event loop whose clock and idling belong to the simulator."""

    def __init__(self):
        super().__init__()
        self._selector = _Selector(self)
        self._sim_woken = False
        self._clock_resolution = 1e-9
        self._names = itertools.count(1)
        self.set_task_factory(self._factory)
        # run_in_executor(None, ...) must not reach a real thread pool: the default executor is simulated too
        self._default_executor = sim.SimThreadPool(4)

    def _factory(self, loop, coro, context=None):
        # deterministic task names (the default global Task-<n> counter is process history dependent)
        task = asyncio.Task(coro, loop=loop, name=f'simtask-{next(self._names)}', context=context)
        return task

    def time(self) -> float:
        k = kmod.current()
        return k.now if k else 0.0

    def _process_events(self, event_list) -> None:
        pass

    def _write_to_self(self) -> None:
        self._sim_woken = True
        k = kmod.current()
        if k:
            k.wake(('loop', id(self)))

    def _make_socket_transport(self, *args, **kwargs):
        raise NotImplementedError('no sockets in the simulator')
