"""Seam installation for Engine A. No change to /repo is needed: every seam is a module attribute or
a class base that is resolved when ``forml.runtime._service.prediction`` is first imported.

``install()`` must run before forml is imported for the first time in the process.
"""
import multiprocessing.context as mpcontext
import sys
import threading

from . import sim

INSTALLED = False
TRACE_FILES = (
    'forml/runtime/_service/__init__.py',
    'forml/runtime/_service/dispatch.py',
    'forml/runtime/_service/prediction.py',
    'forml/application/_strategy.py',
    'forml/application/_descriptor.py',
    'forml/provider/gateway/rest.py',
    'forml/provider/inventory/posix.py',
    'forml/setup/_importer.py',
)
TRACE_ENTRY_FILES = (  # pre-emption at function entry only (cheap): enough to interleave registry reads
    'forml/io/asset/_access.py',
    'forml/io/asset/_directory/__init__.py',
    'forml/io/asset/_directory/level/case.py',
    'forml/io/asset/_directory/level/major.py',
    'forml/io/asset/_directory/level/minor.py',
    'forml/io/asset/_directory/level/root.py',
    'forml/io/layout/_codec.py',  # request decoding / response encoding run on the gateway's thread pool
)


def install() -> None:
    global INSTALLED  # pylint: disable=global-statement
    if INSTALLED:
        return
    if 'forml' in sys.modules:
        raise RuntimeError('detsim.seams.install() must run before forml is imported')
    # heavy third-party dependencies first, with the real classes in place
    import cloudpickle  # noqa: F401 pylint: disable=import-outside-toplevel,unused-import
    import dask  # noqa: F401 pylint: disable=import-outside-toplevel,unused-import
    import numpy  # noqa: F401 pylint: disable=import-outside-toplevel,unused-import
    import pandas  # noqa: F401 pylint: disable=import-outside-toplevel,unused-import
    import sklearn  # noqa: F401 pylint: disable=import-outside-toplevel,unused-import
    import sqlalchemy  # noqa: F401 pylint: disable=import-outside-toplevel,unused-import
    import toml  # noqa: F401 pylint: disable=import-outside-toplevel,unused-import

    real_thread = threading.Thread
    real_spawn, real_fork = mpcontext.SpawnProcess, mpcontext.ForkProcess
    real_lock, real_rlock = threading.Lock, threading.RLock
    threading.Thread, threading.Lock, threading.RLock = sim.SimThread, sim.SimLock, sim.SimRLock
    mpcontext.SpawnProcess, mpcontext.ForkProcess = sim.SimSpawnProcess, sim.SimForkProcess
    try:
        import forml  # noqa: F401 pylint: disable=import-outside-toplevel,unused-import
        from forml.application import _strategy  # pylint: disable=import-outside-toplevel
        from forml.runtime._service import dispatch, prediction  # pylint: disable=import-outside-toplevel
    finally:
        threading.Thread, threading.Lock, threading.RLock = real_thread, real_lock, real_rlock
        mpcontext.SpawnProcess, mpcontext.ForkProcess = real_spawn, real_fork
    # logging handlers created while the lock classes were substituted must get real locks back: the logging
    # module mixes them with its own (real) module lock, and a simulated lock yields the baton on release
    import logging  # pylint: disable=import-outside-toplevel

    for ref in list(logging._handlerList):  # pylint: disable=protected-access
        handler = ref() if callable(ref) else ref
        if handler is not None and isinstance(getattr(handler, 'lock', None), sim.SimLock):
            handler.createLock()
    prediction.multiprocessing = sim.multiprocessing_shim
    dispatch.futures = sim.futures_shim
    _strategy.threading = sim.threading_shim
    _strategy.time = sim.time_shim()
    # component loading (descriptors of the posix inventory are loaded on the serving thread pool): what the loader does
    # around an import is pre-emptible, the import itself is one step (the interpreter's import locks are real locks)
    import importlib  # pylint: disable=import-outside-toplevel
    import types  # pylint: disable=import-outside-toplevel

    from forml.setup import _importer  # pylint: disable=import-outside-toplevel

    from . import kernel as kmod  # pylint: disable=import-outside-toplevel

    def import_module(name, package=None):
        with kmod.atomic():
            return importlib.import_module(name, package)

    _importer.importlib = types.SimpleNamespace(import_module=import_module, invalidate_caches=importlib.invalidate_caches)
    _importer.threading = sim.threading_shim
    assert sim.SimSpawnProcess in prediction.Pool.__mro__, 'Pool is not simulated'
    assert sim.SimForkProcess in prediction.Pool.Worker.__mro__, 'Pool.Worker is not simulated'
    assert sim.SimThread in prediction.Executor.__mro__, 'Executor is not simulated'
    INSTALLED = True
