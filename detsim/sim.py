"""Simulated concurrency primitives backed by the kernel (threads, processes, IPC, pools).

All blocking is done through ``Kernel.block``; nothing here ever blocks on a real lock while holding
the baton. Objects are inert (and, where it matters, behave like the real thing) when no kernel is
active, so that importing forml with the seams installed does not change ordinary behaviour.
"""
import _thread
import collections
import concurrent.futures
import copy
import io
import itertools
import queue as queuemod
import threading
import types
import typing
from multiprocessing import reduction

from . import kernel as kmod

_IDS = itertools.count(1)
_REGISTRY: dict[int, typing.Any] = {}  # proxies pickle as a lookup by id (proxy identity survives "spawn")


def _lookup(oid: int):
    return _REGISTRY[oid]


def pickle_roundtrip(obj):
    """What crossing a process boundary does to an object (ForkingPickler, like multiprocessing)."""
    buf = io.BytesIO()
    reduction.ForkingPickler(buf).dump(obj)
    return reduction.pickle.loads(buf.getvalue())


class _Proxy:
    """Base of manager-proxy like objects."""

    def __init__(self):
        self._oid = next(_IDS)
        _REGISTRY[self._oid] = self

    def __reduce__(self):
        return _lookup, (self._oid,)


class SimEvent(_Proxy):
    """multiprocessing / threading Event."""

    def __init__(self):
        super().__init__()
        self._flag = False

    def is_set(self) -> bool:
        k = kmod.current()
        if k:
            k.yield_('event.is_set')
        return self._flag

    def set(self) -> None:
        k = kmod.current()
        if k:
            k.yield_('event.set')
        self._flag = True
        if k:
            k.wake(('event', self._oid))

    def clear(self) -> None:
        k = kmod.current()
        if k:
            k.yield_('event.clear')
        self._flag = False

    def wait(self, timeout: typing.Optional[float] = None) -> bool:
        k = kmod.current()
        if not k:
            return self._flag
        k.yield_('event.wait')
        if timeout is not None and k.fault('spurious-timeout'):
            return self._flag
        deadline = None if timeout is None else k.now + timeout
        while not self._flag:
            remaining = None if deadline is None else deadline - k.now
            if remaining is not None and remaining <= 0:
                break
            k.block(('event', self._oid), remaining, 'event.wait:block')
        return self._flag


class SimQueue(_Proxy):
    """Manager queue: every item is pickled on put and unpickled on get (it crosses processes)."""

    def __init__(self, maxsize: int = 0, pickled: bool = True):
        super().__init__()
        self._items: collections.deque = collections.deque()
        self._pickled = pickled
        self._maxsize = maxsize or 0

    def qsize(self) -> int:
        return len(self._items)

    def full(self) -> bool:
        return 0 < self._maxsize <= len(self._items)

    def empty(self) -> bool:
        return not self._items

    def put(self, item, block: bool = True, timeout: typing.Optional[float] = None) -> None:
        k = kmod.current()
        if self._pickled:
            buf = io.BytesIO()
            reduction.ForkingPickler(buf).dump(item)
            item = buf.getvalue()
        if k:
            k.yield_('queue.put')
            deadline = None if timeout is None else k.now + timeout
            while self.full():  # a bounded queue: the producer waits for room (or is told there is none)
                k.probe('queue-full')
                if not block:
                    raise queuemod.Full()
                remaining = None if deadline is None else deadline - k.now
                if remaining is not None and remaining <= 0:
                    raise queuemod.Full()
                k.block(('queue-room', self._oid), remaining, 'queue.put:block')
        elif self.full():
            raise queuemod.Full()
        self._items.append(item)
        if k:
            k.wake(('queue', self._oid))

    def put_nowait(self, item) -> None:
        self.put(item, block=False)

    def get(self, block: bool = True, timeout: typing.Optional[float] = None):
        k = kmod.current()
        if k:
            k.yield_('queue.get')
            if block and timeout is not None and k.fault('spurious-timeout'):
                raise queuemod.Empty()
            deadline = None if timeout is None else k.now + timeout
            while not self._items:
                if not block:
                    raise queuemod.Empty()
                remaining = None if deadline is None else deadline - k.now
                if remaining is not None and remaining <= 0:
                    raise queuemod.Empty()
                k.block(('queue', self._oid), remaining, 'queue.get:block')
        elif not self._items:
            raise queuemod.Empty()
        item = self._items.popleft()
        if k and self._maxsize:
            k.wake(('queue-room', self._oid))
        return reduction.pickle.loads(item) if self._pickled else item

    def get_nowait(self):
        return self.get(block=False)


class SimLock:
    """threading.Lock"""

    _real_factory = staticmethod(_thread.allocate_lock)

    def __init__(self):
        self._owner = None
        self._oid = next(_IDS)
        self._real = self._real_factory()  # used when no kernel is active (ordinary thread-safe lock)

    def acquire(self, blocking: bool = True, timeout: float = -1) -> bool:
        k = kmod.current()
        if not k:
            return self._real.acquire(blocking, timeout)
        k.yield_('lock.acquire')
        while self._owner is not None:
            if not blocking:
                return False
            k.probe('lock-contended')
            k.block(('lock', self._oid), None if timeout is None or timeout < 0 else timeout, 'lock.acquire:block')
        self._owner = k.me().tid
        return True

    def release(self) -> None:
        k = kmod.current()
        if not k:
            self._real.release()
            return
        self._owner = None
        k.wake(('lock', self._oid))
        k.yield_('lock.release')

    def locked(self) -> bool:
        return self._owner is not None if kmod.current() else self._real.locked()

    def _at_fork_reinit(self) -> None:  # the stdlib re-initialises its locks in forked children
        self._real._at_fork_reinit()  # pylint: disable=protected-access
        self._owner = None

    __enter__ = acquire

    def __exit__(self, *exc):
        self.release()


class SimRLock(SimLock):
    """threading.RLock"""

    _real_factory = staticmethod(_thread.RLock)

    def __init__(self):
        super().__init__()
        self._depth = 0

    def acquire(self, blocking: bool = True, timeout: float = -1) -> bool:
        k = kmod.current()
        if not k:
            return self._real.acquire(blocking, timeout)
        if self._owner == k.me().tid:
            self._depth += 1
            return True
        got = super().acquire(blocking, timeout)
        if got:
            self._depth = 1
        return got

    def release(self) -> None:
        if not kmod.current():
            self._real.release()
            return
        self._depth -= 1
        if self._depth <= 0:
            self._depth = 0
            super().release()

    __enter__ = acquire


class SimThread(kmod.RealThread):
    """Transparent threading.Thread subclass: an ordinary thread unless a kernel is active at start()."""

    _sim_kind = 'thread'

    def start(self) -> None:
        k = kmod.current()
        if not k:
            super().start()
            return
        if getattr(self, '_sim_started', False):
            raise RuntimeError('threads can only be started once')  # what threading.Thread.start() does
        k.yield_('thread.start')
        self._sim_started = True
        self._sim_task = k.spawn(self._sim_main, self.name, self._sim_kind)

    def _sim_main(self) -> None:
        self.run()

    def join(self, timeout: typing.Optional[float] = None) -> None:
        task = getattr(self, '_sim_task', None)
        k = kmod.current()
        if task is None or not k:
            if getattr(self, '_sim_started', False):
                return
            super().join(timeout)
            return
        k.yield_('thread.join')
        deadline = None if timeout is None else k.now + timeout
        while task.state != kmod.DONE:
            remaining = None if deadline is None else deadline - k.now
            if remaining is not None and remaining <= 0:
                return
            k.block(('join', task.tid), remaining, 'thread.join:block')

    def is_alive(self) -> bool:
        task = getattr(self, '_sim_task', None)
        if task is None:
            if getattr(self, '_sim_started', False):
                return False
            return super().is_alive()
        k = kmod.current()
        if k:
            k.yield_('thread.is_alive')
        return task.state != kmod.DONE


_THREAD_INTERNALS = ('_target', '_name', '_args', '_kwargs', '_daemonic', '_ident', '_native_id', '_tstate_lock',
                     '_started', '_is_stopped', '_initialized', '_stderr', '_invoke_excepthook', '_handle',
                     '_sim_task', '_sim_started', '_sim_copy')


def _rebuild_process(cls, name, daemon, state):
    obj = cls.__new__(cls)
    kmod.RealThread.__init__(obj, name=name, daemon=daemon)
    obj.__dict__.update(state)
    return obj


class _SimProcess(SimThread):
    """Common part of the simulated multiprocessing.Process flavours."""

    _sim_kind = 'process'

    def __init__(self, group=None, target=None, name=None, args=(), kwargs=None, *, daemon=None):
        super().__init__(group=group, target=target, name=name, args=args, kwargs=kwargs or {}, daemon=daemon)

    def __reduce__(self):
        state = {k: v for k, v in self.__dict__.items() if k not in _THREAD_INTERNALS}
        return _rebuild_process, (self.__class__, self.name, self.daemon, state)

    @property
    def exitcode(self):
        task = getattr(self, '_sim_task', None)
        return 0 if task is not None and task.state == kmod.DONE else None

    @property
    def pid(self):
        task = getattr(self, '_sim_task', None)
        return None if task is None else 10000 + task.tid

    def terminate(self):
        pass

    kill = terminate


class SimSpawnProcess(_SimProcess):
    """context.SpawnProcess: the child runs a *pickled copy* of the process object."""

    def _sim_main(self) -> None:
        self._sim_copy.run()

    def start(self) -> None:
        if kmod.current():
            self._sim_copy = pickle_roundtrip(self)  # real spawn semantics: everything must pickle
            k = kmod.current()
            k.probe('spawn-pickled')
        super().start()


class SimForkProcess(_SimProcess):
    """context.ForkProcess: the child runs on a copy-on-write snapshot of the parent's memory."""

    def _sim_main(self) -> None:
        self._sim_copy.run()

    def start(self) -> None:
        k = kmod.current()
        if k:
            clone = self.__class__.__new__(self.__class__)
            kmod.RealThread.__init__(clone, name=self.name, daemon=self.daemon)
            for key, value in self.__dict__.items():
                if key in _THREAD_INTERNALS:
                    continue
                if isinstance(value, _Proxy):
                    clone.__dict__[key] = value  # IPC handles are shared by identity
                    continue
                try:
                    clone.__dict__[key] = copy.deepcopy(value)
                    k.probe('fork-deepcopied-attr')
                except Exception:  # pylint: disable=broad-except
                    clone.__dict__[key] = value
                    k.probe('fork-shared-attr')
            self._sim_copy = clone
        super().start()


class SimManager:
    """multiprocessing.Manager()"""

    def Event(self) -> SimEvent:  # pylint: disable=invalid-name
        return SimEvent()

    def Queue(self, maxsize: int = 0) -> SimQueue:  # pylint: disable=invalid-name
        return SimQueue(maxsize)

    def shutdown(self) -> None:
        pass


multiprocessing_shim = types.SimpleNamespace(Manager=SimManager, Queue=SimQueue, Event=SimEvent)


class _SimPool(concurrent.futures.Executor):
    """Shared logic of the simulated executors."""

    kind = 'thread'
    pickles = False

    def __init__(self, max_workers: typing.Optional[int] = None, **_):
        self._broken = False
        self._max = max_workers or 4
        self._work = SimQueue(pickled=False)
        self._workers: list = []
        self._idle = 0
        self._shutdown = False
        self._name = f'{self.kind}pool{next(_IDS)}'

    def submit(self, fn, /, *args, **kwargs):
        k = kmod.current()
        if self._broken:  # like the real pool after a result that could not be unpickled in the parent
            from concurrent.futures.process import BrokenProcessPool  # pylint: disable=import-outside-toplevel

            raise BrokenProcessPool('A child process terminated abruptly, the process pool is not usable anymore')
        future = concurrent.futures.Future()
        if not k:  # no simulation: run inline
            try:
                future.set_result(fn(*args, **kwargs))
            except BaseException as err:  # pylint: disable=broad-except
                future.set_exception(err)
            return future
        with kmod.atomic():
            payload = (fn, args, kwargs)
            if self.pickles:
                buf = io.BytesIO()
                reduction.ForkingPickler(buf).dump(payload)  # raises here if not picklable, like the real pool
                payload = buf.getvalue()
            if self._idle == 0 and len(self._workers) < self._max:
                idx = len(self._workers)
                self._workers.append(k.spawn(self._loop, f'{self._name}-{idx}', self.kind))
            self._work.put((future, payload))
        return future

    def _loop(self) -> None:
        k = kmod.current()
        while True:
            self._idle += 1
            item = self._work.get()
            self._idle -= 1
            if item is None:
                return
            future, payload = item
            if not future.set_running_or_notify_cancel():
                continue
            try:
                if self.pickles:
                    fn, args, kwargs = reduction.pickle.loads(payload)
                    result = pickle_roundtrip(fn(*args, **kwargs))
                else:
                    fn, args, kwargs = payload
                    result = fn(*args, **kwargs)
            except BaseException as err:  # pylint: disable=broad-except
                if isinstance(err, (kmod.Deadlock, kmod.StepBudget)):
                    raise
                if self.pickles:
                    try:
                        err = pickle_roundtrip(err)
                    except Exception as perr:  # pylint: disable=broad-except
                        # the real parent fails to unpickle the worker's message: the whole pool is declared broken
                        from concurrent.futures.process import BrokenProcessPool  # pylint: disable=import-outside-toplevel

                        self._broken = True
                        k.probe('process-pool-broken')
                        err = BrokenProcessPool(f'unpicklable exception {type(err).__name__}: {perr}')
                k.yield_('pool.done')
                future.set_exception(err)
            else:
                k.yield_('pool.done')
                future.set_result(result)

    def shutdown(self, wait: bool = True, *, cancel_futures: bool = False) -> None:
        self._shutdown = True
        if kmod.current():
            for _ in self._workers:
                self._work.put(None)


class SimThreadPool(_SimPool):
    """concurrent.futures.ThreadPoolExecutor: workers share memory and are pre-emptible."""

    kind = 'thread'


class SimProcessPool(_SimPool):
    """concurrent.futures.ProcessPoolExecutor: call and result cross a pickle boundary."""

    kind = 'process'
    pickles = True


futures_shim = types.SimpleNamespace(
    Future=concurrent.futures.Future, Executor=concurrent.futures.Executor, ThreadPoolExecutor=SimThreadPool,
    ProcessPoolExecutor=SimProcessPool, wait=concurrent.futures.wait, as_completed=concurrent.futures.as_completed)


def time_shim():
    """Replacement for a module's ``time`` attribute: sleep() and time() are virtual."""
    import time as realtime  # pylint: disable=import-outside-toplevel

    def sleep(seconds):
        if seconds < 0:
            raise ValueError('sleep length must be non-negative')  # like time.sleep
        k = kmod.current()
        if k:
            k.sleep(seconds, 'time.sleep')
        else:
            realtime.sleep(seconds)

    def now():
        k = kmod.current()
        return k.now if k else realtime.time()

    return types.SimpleNamespace(sleep=sleep, time=now, monotonic=now)


threading_shim = types.SimpleNamespace(Thread=SimThread, RLock=SimRLock, Lock=SimLock, Event=SimEvent,
                                       current_thread=threading.current_thread)
