"""Confirm a sub-agent made change: applies to /repo HEAD in a scratch worktree, the repo's suite
still passes exactly as on HEAD, the demo fails with the change and passes without it.
usage: confirm.py <change dir with patch.diff + demo> <name>   (or: confirm.py --baseline)"""
import json, os, pathlib, re, shutil, subprocess, sys

PY = '/venv/bin/python'
BASE = pathlib.Path('/tmp/confirm-baseline.json')
FLAKY = {'tests/provider/runner/test_dask.py::TestRunner::test_train[distributed]',
         'tests/pipeline/wrap/test_actor.py::TestStateless::test_signature'}


def suite(tree: str) -> dict:
    env = {**os.environ, 'PYTHONPATH': tree}
    proc = subprocess.run([PY, '-m', 'pytest', '-q', '-p', 'no:cacheprovider', '--timeout=900',
                           '--continue-on-collection-errors', '-rfE'], cwd=tree, env=env, capture_output=True, text=True)
    bad = sorted(set(re.findall(r'^(?:FAILED|ERROR) (\S+)', proc.stdout, re.M)))
    tail = proc.stdout.strip().splitlines()[-1]
    return {'bad': bad, 'tail': tail}


def worktree(name: str) -> str:
    path = f'/tmp/confirm-{name}'
    subprocess.run(['git', '-C', '/repo', 'worktree', 'remove', '--force', path], capture_output=True)
    subprocess.run(['git', '-C', '/repo', 'worktree', 'add', '-q', '--detach', path, 'HEAD'], check=True)
    return path


def main():
    if sys.argv[1] == '--baseline':
        tree = worktree('baseline')
        try:
            BASE.write_text(json.dumps(suite(tree)))
        finally:
            subprocess.run(['git', '-C', '/repo', 'worktree', 'remove', '--force', tree])
        print(BASE.read_text()[:300])
        return
    change, name = pathlib.Path(sys.argv[1]), sys.argv[2]
    base = json.loads(BASE.read_text())
    tree = worktree(name)
    out = {'name': name}
    try:
        demo = next(p for p in sorted(change.iterdir()) if p.name in ('demo.py', 'test_demo.py'))
        env = {**os.environ, 'PYTHONPATH': tree}
        cmd = [PY, str(demo)] if demo.name == 'demo.py' else [PY, '-m', 'pytest', '-q', '-p', 'no:cacheprovider', str(demo)]
        clean = subprocess.run(cmd, env=env, capture_output=True, text=True, cwd='/tmp', timeout=900)
        out['demo_clean_exit'] = clean.returncode
        ap = subprocess.run(['git', '-C', tree, 'apply', str(change / 'patch.diff')], capture_output=True, text=True)
        out['applies'] = ap.returncode == 0
        if not out['applies']:
            out['apply_err'] = ap.stderr[-400:]
        else:
            mut = subprocess.run(cmd, env=env, capture_output=True, text=True, cwd='/tmp', timeout=900)
            out['demo_patched_exit'] = mut.returncode
            out['demo_patched_tail'] = (mut.stdout + mut.stderr).strip()[-300:]
            res = suite(tree)
            out['suite_tail'] = res['tail']
            out['suite_diff'] = sorted((set(res['bad']) ^ set(base['bad'])) - FLAKY)
        out['confirmed'] = bool(out.get('applies') and out['demo_clean_exit'] == 0 and out.get('demo_patched_exit', 0) != 0
                                and not out.get('suite_diff'))
    finally:
        subprocess.run(['git', '-C', '/repo', 'worktree', 'remove', '--force', tree])
    pathlib.Path(f'/tmp/confirm-{name}.json').write_text(json.dumps(out, indent=1))
    print(json.dumps(out, indent=1))


main()
