"""Import confirmed sub-agent changes into /verif/seeded/<id>/ (patch.diff, demo, meta.json)."""
import json, pathlib, shutil, sys
FLAKY_EXTRA = {'tests/provider/runner/test_dask.py::TestRunner::test_apply[distributed]'}
for conf in sorted(pathlib.Path('/tmp').glob('confirm-c*.json')):
    c = json.loads(conf.read_text())
    name = c['name']
    prop, n = name.split('-')
    if n.endswith('p'):
        continue  # ported ones are imported by hand
    rnd = int(prop[4:]) if len(prop) > 3 else 1
    round2 = rnd > 1
    prop = prop[:3]
    src = pathlib.Path(f'/tmp/out{rnd}-{prop}/change{n}' if round2 else f'/tmp/out-{prop}/change{n}')
    diff = set(c.get('suite_diff') or []) - FLAKY_EXTRA
    if not round2 and (dst := pathlib.Path(f'/verif/seeded/{prop}-{n}')).exists():
        continue  # round 1 is already imported (some were ported by hand since)
    ok = c.get('applies') and c.get('demo_clean_exit') == 0 and c.get('demo_patched_exit', 0) != 0 and not diff
    dst = pathlib.Path(f'/verif/seeded/{prop}{f"r{rnd}" if round2 else ""}-{n}')
    if not ok:
        print(name, 'not imported', c.get('apply_err', '')[:80], diff)
        continue
    dst.mkdir(parents=True, exist_ok=True)
    shutil.copy(src / 'patch.diff', dst / 'patch.diff')
    demo = next(p for p in src.iterdir() if p.name in ('demo.py', 'test_demo.py'))
    shutil.copy(demo, dst / demo.name)
    agent = json.loads((src / 'meta.json').read_text())
    meta = {'property': prop.upper(), 'summary': agent.get('summary'), 'site': agent.get('site'),
            'needs_to_manifest': agent.get('needs_to_manifest'),
            'origin': 'written by an independent sub-agent that saw only the property text and a scratch worktree',
            'confirmed_by_me': {'tree': 'scratch worktree of /repo HEAD (with the fix: commits)',
                                'suite': c.get('suite_tail'), 'suite_vs_head_baseline': 'identical failing set (modulo the 3 tests that flip on the unchanged tree: test_signature, test_dask[distributed] x2)',
                                'demo_on_clean_tree_exit': c.get('demo_clean_exit'), 'demo_with_patch_exit': c.get('demo_patched_exit'),
                                'command': f'tools/confirm.py {src} {name}'}}
    old = dst / 'meta.json'
    if old.exists():
        prev = json.loads(old.read_text())
        for k in ('caught_by', 'check_args', 'notes'):
            if k in prev: meta[k] = prev[k]
    (dst / 'meta.json').write_text(json.dumps(meta, indent=1))
    print(name, 'imported')
