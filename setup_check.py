"""MANIFEST.setup_cmd: nothing to build - verify that the simulator's prerequisites import offline."""
import importlib
import sys

for name in ('forml', 'forml.runtime', 'forml.provider.registry.filesystem.posix', 'forml.provider.runner.dask',
             'forml.provider.runner.pyfunc', 'forml.provider.feed.alchemy', 'forml.provider.feed.monolite',
             'packaging.version', 'pandas', 'dask', 'sqlalchemy', 'hypothesis'):
    try:
        importlib.import_module(name)
    except Exception as err:  # pylint: disable=broad-except
        print(f'setup: cannot import {name}: {err}', file=sys.stderr)
        sys.exit(1)
print('setup ok')
